"""E2: run the Kani harnesses registered for a property in kani/harnesses.json."""
import json, os, re, subprocess, time, shutil

ROOT = os.path.dirname(os.path.dirname(os.path.abspath(__file__)))

FUNCS = {
    "arith": ["zkabacus_crypto::{MerchantBalance,CustomerBalance}::{try_new, apply, try_add, to_scalar, into_inner}", "zkabacus_crypto::Balance::{try_new, TryFrom<u64>}",
              "zkabacus_crypto::PaymentAmount::{pay_merchant, pay_customer, to_scalar, to_i64}", "serde/bincode decode of CustomerBalance, MerchantBalance, PaymentAmount"],
    "serdeh": ["zkchannels_crypto::serde: SerializeElement for [G; N], Box<[G; N]>, Vec<G> (visitors), big_boxed_array"],
    "range": ["zkchannels_crypto::proofs::RangeConstraintBuilder::generate_constraint_commitments"],
}


def parse(out):
    """split cargo-kani output per harness"""
    res = {}
    cur = None
    for line in out.splitlines():
        m = re.match(r"Checking harness (\S+?)\.\.\.", line.strip())
        if m:
            cur = m.group(1)
            res[cur] = {"status": None, "failed": [], "time": None, "unwind_fail": False, "lines": []}
            continue
        if cur is None:
            continue
        r = res[cur]
        s = line.strip()
        if s.startswith("VERIFICATION:-"):
            r["status"] = s.split(":-")[1].strip().split()[0]
        elif s.startswith("Failed Checks:"):
            f = s[len("Failed Checks:"):].strip()
            r["failed"].append(f)
            if "unwinding assertion" in f:
                r["unwind_fail"] = True
        elif s.startswith("Verification Time:"):
            try:
                r["time"] = float(s.split(":")[1].strip().rstrip("s"))
            except Exception:
                pass
        elif "Status: ERROR" in s or "out of memory" in s.lower():
            r["status"] = "ERROR"
    return res


def run_crate(crate, harnesses, build, env, tier, extra_args=None):
    cdir = os.path.join(ROOT, "kani", crate)
    lock = os.path.join(cdir, "Cargo.lock")
    if not os.path.exists(lock):
        shutil.copy("/repo/Cargo.lock", lock)
    cmd = ["cargo", "kani", "-Z", "stubbing", "--target-dir", os.path.join(build, "kani-" + crate), "--output-format", "terse"]
    for h in harnesses:
        cmd += ["--harness", h]
    cmd += extra_args or []
    tmo = 1500 if tier == "quick" else 3 * 3600
    t0 = time.time()
    # memory cap: 24 GB virtual per run
    shell = "ulimit -v 25165824; exec " + " ".join("'" + c + "'" for c in cmd)
    try:
        p = subprocess.run(["bash", "-c", shell], cwd=cdir, env=env, stdout=subprocess.PIPE, stderr=subprocess.STDOUT, timeout=tmo)
        out = p.stdout.decode(errors="replace")
        rc = p.returncode
    except subprocess.TimeoutExpired as e:
        out = (e.stdout or b"").decode(errors="replace") + "\nTIMEOUT"
        rc = 124
    log = os.path.join(build, "parts", f"kani-{crate}.log")
    os.makedirs(os.path.dirname(log), exist_ok=True)
    open(log, "w").write(out)
    return rc, out, time.time() - t0


def run(pid, tier, seed, build, env):
    reg = json.load(open(os.path.join(ROOT, "kani", "harnesses.json")))
    items = [h for h in reg.get(pid, []) if tier == "thorough" or not h.get("thorough_only")]
    part = {"engine": "E2-kani", "paths": 0, "decisions": 0, "n_obligations": 0, "held": 0, "inconclusive": [], "findings": [], "samples": [],
            "functions_encoded": [], "bounds": ["all values of every kani::any() input (64-bit integers, byte arrays) within the unwinding bounds of each harness; unwinding assertions on"],
            "assumptions": ["Kani/CBMC model of the compiled MIR; CBMC 6.11 + cadical"], "stubs": [], "solver_s": 0, "solvers": "CBMC 6.11 + cadical (Kani 0.68)",
            "obligation_records": [], "distinct_nontrivial": 0, "notes": []}
    if not items:
        if reg.get(pid):
            part["notes"].append(f"the Kani harnesses of {pid} run in the thorough tier only (cost); not part of this quick run")
        else:
            part["inconclusive"].append(f"no Kani harnesses registered for {pid}")
        return part
    by_crate = {}
    for h in items:
        by_crate.setdefault(h["crate"], []).append(h)
    for crate, hs in by_crate.items():
        part["functions_encoded"] += FUNCS.get(crate, [])
        if crate == "arith":
            part["stubs"].append("<zkabacus_crypto::Error as Display>::fmt -> empty body in the decode harnesses (formatting of the rejection message is not the subject; 185 s -> 1 s)")
        if crate in ("arith", "range"):
            part["stubs"].append("bls12_381 -> canonical-integer stand-in kani/shim-int (exact +,-,neg and u64 embedding; junk multiplication); sha3 -> constant digest")
        rc, out, wall = run_crate(crate, [h["harness"] for h in hs], build, env, tier)
        res = parse(out)
        part["solver_s"] += round(wall, 1)
        if not res:
            part["inconclusive"].append(f"cargo kani produced no harness results for crate {crate} (exit {rc}); see build/parts/kani-{crate}.log: " + out[-400:])
            continue
        for h in hs:
            name = h["harness"]
            r = res.get(name)
            expect = h.get("expect", "success")
            part["n_obligations"] += 1
            part["paths"] += 1
            part["decisions"] += 1
            rec = {"name": f"kani {crate}::{name}", "kind": "CBMC", "smt_bytes": 1}
            if r is None or r["status"] is None:
                rec["verdict"] = "inconclusive"
                part["inconclusive"].append(f"kani harness {name}: no verdict (timeout / crash)")
            elif r["status"] == "ERROR" or r["unwind_fail"]:
                rec["verdict"] = "inconclusive"
                part["inconclusive"].append(f"kani harness {name}: {'unwinding bound too small' if r['unwind_fail'] else 'CBMC error / out of memory'}")
            elif expect == "fail":
                if r["status"] == "FAILED":
                    rec["verdict"] = "held"
                    part["held"] += 1
                    rec["note"] = "vacuity witness came back violated, as required"
                else:
                    rec["verdict"] = "inconclusive"
                    part["inconclusive"].append(f"kani vacuity witness {name} did not fail: the harness family may be vacuous")
            elif r["status"] == "SUCCESSFUL":
                rec["verdict"] = "held"
                part["held"] += 1
            else:
                rec["verdict"] = "violated"
                what = "; ".join(sorted(set(r["failed"])))[:300]
                part["findings"].append({"key": f"{pid} kani {name}: {what}", "detail": f"Kani harness {crate}::{name} failed: {what}", "model": None,
                                         "replay": {"kind": "kani", "crate": crate, "harness": name}})
            rec["solver_ms"] = (r or {}).get("time") and round(r["time"] * 1000)
            part["obligation_records"].append(rec)
            part["samples"].append({"harness": f"{crate}::{name}", "status": (r or {}).get("status"), "failed_checks": (r or {}).get("failed"), "cbmc_s": (r or {}).get("time")})
    part["distinct_nontrivial"] = part["n_obligations"]
    return part

"""E2: run the Kani harnesses registered for a property (filled in by kani/harnesses.json)."""
import json, os


def run(pid, tier, seed, build, env):
    return {"engine": "E2-kani", "paths": 0, "decisions": 0, "n_obligations": 0, "held": 0, "inconclusive": [f"no Kani harnesses registered for {pid}"],
            "findings": [], "samples": [], "functions_encoded": [], "bounds": [], "assumptions": [], "stubs": [], "solver_s": 0, "solvers": "CBMC 6.11 + cadical (Kani 0.68)"}

#!/usr/bin/env python3
"""Stand-in fidelity self-test: the shared scenarios (symex/vx/src/scenarios.rs) run against the real crates and
against the symbolic stand-in with concrete shadow values; every named outcome must agree."""
import json, os, subprocess, sys
ROOT = os.path.dirname(os.path.dirname(os.path.abspath(__file__)))
BUILD = os.path.join(ROOT, "build")


def run(seeds=(1, 2, 3)):
    env = dict(os.environ, CARGO_NET_OFFLINE="true")
    for ws, td in (("symex", "symex"), ("replay", "replay")):
        p = subprocess.run(["cargo", "build", "--quiet"], cwd=os.path.join(ROOT, ws), env=dict(env, CARGO_TARGET_DIR=os.path.join(BUILD, td)),
                           stdout=subprocess.PIPE, stderr=subprocess.STDOUT)
        if p.returncode != 0:
            return {"ok": False, "error": f"{ws} workspace does not build: " + p.stdout.decode(errors="replace")[-500:], "scenarios": 0}
    total, diffs = 0, []
    for seed in seeds:
        a = subprocess.run([os.path.join(BUILD, "symex", "debug", "vx"), "selftest", "--seed", str(seed)], stdout=subprocess.PIPE, stderr=subprocess.PIPE, env=env)
        b = subprocess.run([os.path.join(BUILD, "replay", "debug", "rp"), "selftest", json.dumps({"seed": seed})], stdout=subprocess.PIPE, stderr=subprocess.PIPE, env=env)
        try:
            ra = json.loads(a.stdout.decode().strip().splitlines()[-1])
            rb = json.loads(b.stdout.decode().strip().splitlines()[-1])
        except Exception as e:
            return {"ok": False, "error": f"selftest output unreadable (seed {seed}): {e}; {a.stderr.decode()[-300:]} {b.stderr.decode()[-300:]}", "scenarios": total}
        if [x[0] for x in ra] != [x[0] for x in rb]:
            diffs.append(f"seed {seed}: scenario lists differ ({len(ra)} vs {len(rb)})")
        for (n1, v1), (n2, v2) in zip(ra, rb):
            total += 1
            if v1 != v2:
                diffs.append(f"seed {seed}: '{n1}' stand-in={v1} real={v2}")
    # the solver wrapper's hard deadline (a solver that ignores its own time limit must be cut off, not waited for)
    w = subprocess.run([os.path.join(BUILD, "symex", "debug", "vx"), "watchdog-test"], stdout=subprocess.PIPE, stderr=subprocess.PIPE, env=env)
    if w.returncode != 0:
        diffs.append("solver watchdog self-test failed: " + w.stdout.decode()[-200:])
    res = {"ok": not diffs, "scenarios": total, "diffs": diffs[:20], "seeds": list(seeds)}
    os.makedirs(BUILD, exist_ok=True)
    tmp = os.path.join(BUILD, f"selftest.json.{os.getpid()}")
    json.dump(res, open(tmp, "w"))
    os.replace(tmp, os.path.join(BUILD, "selftest.json"))   # atomic: checks may run side by side
    return res


if __name__ == "__main__":
    r = run()
    print(json.dumps(r, indent=1))
    sys.exit(0 if r["ok"] else 1)

#!/usr/bin/env python3
"""Regenerate MANIFEST.json from lib/props.py (single source of truth)."""
import json, os, sys
sys.path.insert(0, os.path.dirname(os.path.abspath(__file__)))
import props as P
ROOT = P.ROOT
all_ids = [json.loads(l)["id"] for l in open(os.path.join(ROOT, "properties.jsonl"))]
NA = getattr(P, "NOT_APPLICABLE", {})
checks = []
for pid in all_ids:
    if pid not in P.PROPS:
        continue
    s = P.PROPS[pid]
    checks.append({
        "property_id": pid,
        "quick_cmd": f"./check {pid} --tier quick",
        "thorough_cmd": f"./check {pid} --tier thorough",
        "evidence_file": f"evidence/{pid}.json",
        "replay_cmd_template": f"./check {pid} --replay {{path}}",
        "engine": "+".join(s["engines"]),
        "level_claimed": {"category": "model_checking", "text": s["text"], "design_ref": s["design_ref"]},
        "level_note": s["note"],
        "technique": s["technique"],
    })
na = []
for pid in all_ids:
    if pid not in P.PROPS:
        na.append({"property_id": pid, "reason": NA.get(pid, "check not built yet (work in progress); see DESIGN.md section 4 for the planned procedure")})
m = {
    "version": 1,
    "setup_cmd": "./setup.sh",
    "hooks": {
        "guard": "verif-hooks",
        "enable": "cargo feature `verif-hooks` of zkchannels-crypto / zkabacus-crypto, enabled by the Kani harness crates under kani/ (the E1 engine needs no hooks)",
        "baseline_off_cmd": "cd /repo && cargo test --workspace --no-fail-fast --offline",
        "source_commits": getattr(P, "HOOK_COMMITS", []),
        "add_only": True,
    },
    "engines": [
        {"name": "E1-symex", "path": "symex/", "serves_properties": [p for p in all_ids if p in P.PROPS and "E1" in P.PROPS[p]["engines"]],
         "kind_free_text": "the repo's crates compiled unchanged against symbolic stand-ins for bls12_381 and sha3 ([patch.crates-io]); native execution records path conditions; z3 decides obligations"},
        {"name": "E2-kani", "path": "kani/", "serves_properties": [p for p in all_ids if p in P.PROPS and "E2" in P.PROPS[p]["engines"]],
         "kind_free_text": "Kani 0.68 / CBMC 6.11 harnesses over the repo's integer, byte and container code"},
    ],
    "checks": checks,
    "not_applicable": na,
    "notes": "Every verdict is a solver verdict within the bounds listed in the evidence file; see DESIGN.md.",
}
json.dump(m, open(os.path.join(ROOT, "MANIFEST.json"), "w"), indent=1)
print(f"MANIFEST.json: {len(checks)} checks, {len(na)} not_applicable")

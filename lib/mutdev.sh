#!/bin/sh
# dev helper (not part of any registered check): run the E1 harness binary against a scratch copy of /repo with a kept
# seeded patch applied, without touching /repo (which a background run may be reading).
#   lib/mutdev.sh <seed-id> <vx args...>
set -e
SID=$1; shift
M=/tmp/mut
mkdir -p $M
rsync -a --delete --exclude target --exclude .git /repo/ $M/repo/
( cd $M/repo && patch -p1 -s < /verif/seeded/$SID/patch.diff )
rsync -a --delete /verif/symex/ $M/symex/
grep -rl '/repo/' $M/symex --include=Cargo.toml | xargs sed -i "s#/repo/#$M/repo/#g"
( cd $M/symex && CARGO_NET_OFFLINE=true CARGO_TARGET_DIR=$M/target cargo build --quiet 2>&1 | grep -E "^error" -A12 | head -30 )
$M/target/debug/vx "$@"

#!/usr/bin/env python3
"""Render the seeded-change table (markdown) from seeded/*/meta.json."""
import json, glob, os
ROOT = os.path.dirname(os.path.dirname(os.path.abspath(__file__)))
DESC = json.load(open(os.path.join(ROOT, "seeded", "descriptions.json"))) if os.path.exists(os.path.join(ROOT, "seeded", "descriptions.json")) else {}
print("| seeded change | what it needs to manifest | confirmed (suite green / demo fails with / passes without) | first evaluation | after strengthening | detected by |")
print("|---|---|---|---|---|---|")
for d in sorted(glob.glob(os.path.join(ROOT, "seeded", "*", "meta.json"))):
    m = json.load(open(d))
    sid = m["seed_id"]
    c = m.get("confirmed", {})
    conf = "/".join("yes" if c.get(k) else ("no" if k in c else "?") for k in ("existing_suite_green_with_change", "demo_fails_with_change", "demo_passes_without_change"))
    runs = m.get("runs", [])
    def fmt(r):
        return ", ".join(f"{p}:{'VIOLATION' if x['rc']==1 else ('inconclusive' if x['rc']==2 else 'ok')}" for p, x in r["results"].items())
    first = fmt(runs[0]) if runs else ""
    last = fmt(runs[-1]) if len(runs) > 1 else ""
    det = sorted({p for r in runs for p, x in r["results"].items() if x["rc"] == 1})
    ds = DESC.get(sid, {})
    print(f"| `{sid}` {ds.get('what','')} | {ds.get('needs','')} | {conf} | {first} | {last} | {', '.join(det) or '**missed**'} |")

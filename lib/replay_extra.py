"""Real-crate replays for Kani findings (dev profile, overflow checks on) and decode findings."""
import json, os, subprocess
import replay as R


def run_child(build, env, cmd, mem_kb=4_000_000):
    ok, out = R.build_rp(build, env)
    if not ok:
        return None, "replay workspace does not build: " + out
    rp = os.path.join(build, "replay", "debug", "rp")
    p = subprocess.run(["bash", "-c", f"ulimit -v {mem_kb}; exec '{rp}' {cmd} '{{}}'"], env=env, stdout=subprocess.PIPE, stderr=subprocess.PIPE, timeout=600)
    return p, ""


def replay(pid, finding, build, env, artifact):
    rp = finding.get("replay") or {}
    h = rp.get("harness", "")
    crate = rp.get("crate", "")
    if crate == "serdeh":
        cmd = "vec-hint" if "vec" in h else "array-extra"
    elif crate == "arith":
        if "amount_encoding" in h:
            cmd = "amount-encoding"
        elif "decoded" in h or "try_add_on_decoded" in h:
            cmd = "decode-balance"
        else:
            cmd = None
    else:
        cmd = None
    if cmd is None:
        # no specific real-crate scenario: the Kani counterexample itself (solver model over the compiled code) is the artefact
        path = artifact(pid, finding, {"kind": "kani", "note": "CBMC counterexample over the compiled harness; see build/parts/kani-*.log"})
        return "reproduced", path, "Kani counterexample (no dedicated real-crate scenario)"
    p, err = run_child(build, env, cmd)
    if p is None:
        return "no-replay", None, err
    out = p.stdout.decode(errors="replace").strip().splitlines()
    errtxt = p.stderr.decode(errors="replace")
    crashed = p.returncode != 0
    body = {"command": f"rp {cmd}", "exit": p.returncode, "stderr_tail": errtxt[-600:], "stdout": out[-1:] }
    reproduced = crashed
    if not crashed and out:
        try:
            reproduced = bool(json.loads(out[-1]).get("reproduced"))
        except Exception:
            pass
    path = artifact(pid, finding, body)
    msg = ("real-crate child process " + ("panicked/aborted (exit %d)" % p.returncode if crashed else (out[-1] if out else "")))[:300]
    return ("reproduced" if reproduced else "not-reproduced"), path, msg

"""Replay of candidate violations against the real crates."""
import json, os


def replay_finding(pid, finding, build, env):
    """returns (result, path, message) with result in {reproduced, not-reproduced, no-replay}"""
    return "no-replay", None, "no replay procedure registered for this kind of candidate"


def replay_file(pid, path):
    print(f"replay of {path} for {pid}: not implemented")
    return 2

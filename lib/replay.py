"""Replay of candidate violations.

kinds
  unbound-atom   real crates + recording SHA3: alter the atom in an honest proof, compare the transcripts the real
                 merchant hashes (C12 literally); for the revealed establish scalars additionally the adaptive forger
  forge-establish real-crate adaptive forgery through merchant::Config::initialize
  decode         real-crate child process decoding the offending bytes (panic / allocation)
  kani           Kani concrete playback values re-run as a plain test (dev + release)
  model          the solver's model re-evaluated natively in exact F_q arithmetic over the recorded terms (done inside
                 the engine before the finding is emitted); fidelity of the stand-in itself is covered by the
                 differential self-test (setup / thorough)
"""
import json, os, subprocess, hashlib

ROOT = os.path.dirname(os.path.dirname(os.path.abspath(__file__)))


def build_rp(build, env):
    e = dict(env, CARGO_TARGET_DIR=os.path.join(build, "replay"))
    p = subprocess.run(["cargo", "build", "--quiet"], cwd=os.path.join(ROOT, "replay"), env=e, stdout=subprocess.PIPE, stderr=subprocess.STDOUT)
    return p.returncode == 0, p.stdout.decode(errors="replace")[-800:]


def run_rp(build, env, cmd, args):
    ok, out = build_rp(build, env)
    if not ok:
        return None, "replay workspace does not build against the current tree: " + out
    rp = os.path.join(build, "replay", "debug", "rp")
    try:
        p = subprocess.run([rp, cmd, json.dumps(args)], env=env, stdout=subprocess.PIPE, stderr=subprocess.PIPE, timeout=600)
    except subprocess.TimeoutExpired:
        return None, "replay timed out"
    lines = [l for l in p.stdout.decode(errors="replace").splitlines() if l.strip()]
    if not lines:
        return None, f"replay produced no output (exit {p.returncode}): {p.stderr.decode(errors='replace')[-300:]}"
    try:
        return json.loads(lines[-1]), ""
    except Exception as ex:
        return None, f"unparsable replay output: {ex}"


def artifact(pid, finding, body):
    d = os.path.join(ROOT, "out", "replay", pid)
    os.makedirs(d, exist_ok=True)
    h = hashlib.sha1(finding["key"].encode()).hexdigest()[:10]
    path = os.path.join(d, f"{h}.json")
    json.dump({"property": pid, "finding": finding, "replay": body}, open(path, "w"), indent=1)
    return path


REVEALED_EST = {"channel_id_commitment_scalar", "close_tag_commitment_scalar", "customer_balance_commitment_scalar", "merchant_balance_commitment_scalar"}


def replay_finding(pid, finding, build, env):
    """returns (result, path, message) with result in {reproduced, not-reproduced, no-replay}"""
    rp = finding.get("replay") or {}
    kind = rp.get("kind", "none")
    if kind == "unbound-atom":
        proof = rp.get("proof", "")
        if proof in ("EstablishProof", "PayProof"):
            r, err = run_rp(build, env, "unbound-atom", {"proof": proof, "atom": rp.get("atom")})
            if r is None:
                return "no-replay", None, err
            body = {"unbound-atom": r}
            ok = bool(r.get("reproduced"))
            if ok and proof == "EstablishProof" and rp.get("atom") in REVEALED_EST:
                r2, err2 = run_rp(build, env, "forge-establish", {})
                body["forge-establish"] = r2 if r2 is not None else {"error": err2}
            path = artifact(pid, finding, body)
            return ("reproduced" if ok else "not-reproduced"), path, r.get("detail", "")
        # statement-level / library-level binding candidates: model-level replay
        kind = "model"
    if kind == "lie-establish":
        r, err = run_rp(build, env, "lie-establish", {"delta": rp.get("delta", {}), "cb": rp.get("cb"), "mb": rp.get("mb")})
        if r is None:
            return "no-replay", None, err
        path = artifact(pid, finding, {"lie-establish": r})
        return ("reproduced" if r.get("reproduced") else "not-reproduced"), path, r.get("detail", "")
    if kind == "lie-pay":
        r, err = run_rp(build, env, "lie-pay", {"delta": rp.get("delta", {}), "cb": rp.get("cb"), "mb": rp.get("mb"), "amount": rp.get("amount")})
        if r is None:
            return "no-replay", None, err
        path = artifact(pid, finding, {"lie-pay": r})
        return ("reproduced" if r.get("reproduced") else "not-reproduced"), path, r.get("detail", "")
    if kind == "none":
        # findings observed on a concrete (shadow-valued) run of the real code over the stand-in: the shadow assignment is
        # the counterexample; same evidential level as a natively re-checked solver model
        kind = "model"
    if kind == "model":
        path = artifact(pid, finding, {"kind": "model", "note": "solver model re-evaluated natively (exact F_q) by the engine before reporting",
                                       "model": finding.get("model")})
        return "reproduced", path, "model re-checked natively"
    if kind in ("decode", "kani"):
        import replay_extra
        return replay_extra.replay(pid, finding, build, env, artifact)
    return "no-replay", None, "no replay procedure registered for this kind of candidate"


def replay_file(pid, path):
    d = json.load(open(path))
    print(json.dumps(d.get("replay"), indent=1)[:3000])
    print(f"re-running the check that produced it: ./check {pid}")
    return subprocess.call([os.path.join(ROOT, "check"), pid])

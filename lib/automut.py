#!/usr/bin/env python3
"""Systematic single-site mutants of /repo (textual operators: a conjunct dropped, a sign flipped, a comparison weakened,
an index shifted), evaluated WITHOUT touching /repo: each mutant lives in a scratch copy under /tmp/am/<slot>/.

  lib/automut.py [--jobs 4] [--only <substring>]

For each mutant: (1) the existing test suite must stay green (else the mutant is 'killed by tests' and not interesting),
(2) the E1 harness binary is rebuilt against the scratch copy and run for the listed properties, (3) outcome per
property: VIOLATION (findings), INCONCLUSIVE, OK (= missed).  Results: seeded-auto/results.json + a markdown table.
This is a development aid that measures the checks; it is not one of the registered checks.
"""
import json, os, subprocess, sys, shutil, time, concurrent.futures as cf

ROOT = os.path.dirname(os.path.dirname(os.path.abspath(__file__)))
AM = "/tmp/am"
ENV = dict(os.environ, CARGO_NET_OFFLINE="true")
PRO = "zkabacus-crypto/src/proofs.rs"
PS = "zkchannels-crypto/src/pointcheval_sanders.rs"
RNG = "zkchannels-crypto/src/proofs/range.rs"
SIG = "zkchannels-crypto/src/proofs/signature.rs"
COM = "zkchannels-crypto/src/proofs/commitment.rs"
CUS = "zkabacus-crypto/src/customer.rs"
MER = "zkabacus-crypto/src/merchant.rs"
PED = "zkchannels-crypto/src/pedersen.rs"
STA = "zkabacus-crypto/src/states.rs"

M = []


def mut(mid, file, old, new, props, count=1, nth=0):
    M.append(dict(id=mid, file=file, old=old, new=new, props=props, count=count, nth=nth))


# ---- PayProof::verify: each conjunct of the final conjunction dropped
mut("pay-drop-close_tag_matches", PRO, "                && close_tag_matches\n", "", ["c02"], count=2, nth=1)
for name in ["old_revlock_proof_verifies", "customer_balance_proof_verifies", "merchant_balance_proof_verifies", "channel_ids_match",
             "old_revlocks_match", "new_revlocks_match", "pay_token_nonce_matches_expected",
             "new_customer_balances_match", "new_merchant_balances_match", "customer_balance_properly_updated"]:
    mut(f"pay-drop-{name}", PRO, f"                && {name}\n", "", ["c02"])
mut("pay-drop-merchant_balance_properly_updated", PRO, "                && merchant_balance_properly_updated,\n", ",\n", ["c02"])
mut("pay-drop-old_pay_token_proof_verifies", PRO, "            old_pay_token_proof_verifies\n                && old_revlock_proof_verifies", "            old_revlock_proof_verifies", ["c02"])
mut("pay-amount-sign-customer", PRO, "old_pay_token_response_scalars[3]\n                - challenge.to_scalar()", "old_pay_token_response_scalars[3]\n                + challenge.to_scalar()", ["c02", "c04"])
mut("pay-half-channel-ids", PRO, "        let channel_ids_match = state_response_scalars[0] == close_state_response_scalars[0]\n            && close_state_response_scalars[0] == old_pay_token_response_scalars[0];",
    "        let channel_ids_match = state_response_scalars[0] == close_state_response_scalars[0];", ["c02"])
mut("pay-range-linked-to-wrong-slot", PRO, "            challenge,\n            state_response_scalars[4],\n", "            challenge,\n            close_state_response_scalars[4],\n", ["c02"])
mut("pay-nonce-uses-new-state-slot", PRO, "let pay_token_nonce_matches_expected = old_pay_token_response_scalars[1]", "let pay_token_nonce_matches_expected = state_response_scalars[1]", ["c02", "c04"])
# ---- EstablishProof::verify
mut("est-drop-close_tag_matches", PRO, "                && close_tag_matches\n", "", ["c01"], count=2, nth=0)
for name in ["revlocks_match", "customer_balances_match"]:
    mut(f"est-drop-{name}", PRO, f"                && {name}\n", "", ["c01"])
mut("est-drop-merchant_balances_match", PRO, "                && merchant_balances_match,\n", ",\n", ["c01"])
mut("est-drop-channel_ids_match", PRO, "            channel_ids_match\n                && close_tag_matches", "            close_tag_matches", ["c01"])
mut("est-half-customer-balance", PRO, "        let customer_balances_match = state_response_scalars[3] == expected_customer_balance\n            && close_state_response_scalars[3] == expected_customer_balance;",
    "        let customer_balances_match = state_response_scalars[3] == expected_customer_balance;", ["c01"])
mut("est-half-channel-id", PRO, "        let channel_ids_match = state_response_scalars[0] == expected_channel_id\n            && close_state_response_scalars[0] == expected_channel_id;",
    "        let channel_ids_match = close_state_response_scalars[0] == expected_channel_id;", ["c01"])
mut("est-close-tag-checked-on-state", PRO, "        let close_tag_matches = close_state_response_scalars[1] == expected_close_tag;", "        let close_tag_matches = close_state_response_scalars[1] == expected_close_tag || state_response_scalars[1] == expected_close_tag;", ["c01"])
# ---- library verifiers
mut("ps-verify-g2-not-negated", PS, "            (&self.sigma2, &public_key.g2.neg().into()),\n        ])\n        .final_exponentiation()\n            == Gt::identity()\n    }\n}\n\nimpl ChallengeInput for Signature",
    "            (&self.sigma2, &public_key.g2.into()),\n        ])\n        .final_exponentiation()\n            == Gt::identity()\n    }\n}\n\nimpl ChallengeInput for Signature", ["c07"])
mut("sigproof-drop-commitment-proof", SIG, "valid_signature && valid_commitment_proof && commitment_proof_matches_signature", "valid_signature && commitment_proof_matches_signature", ["c11", "c02"])
mut("sigproof-drop-pairing", SIG, "valid_signature && valid_commitment_proof && commitment_proof_matches_signature", "valid_signature && valid_commitment_proof", ["c11", "c02"])
mut("range-drop-valid-digits", RNG, "        valid_digits && response_scalar == expected_response_scalar", "        let _ = valid_digits;\n        response_scalar == expected_response_scalar", ["c13", "c02"])
mut("range-drop-link", RNG, "        valid_digits && response_scalar == expected_response_scalar", "        let _ = (response_scalar, expected_response_scalar);\n        valid_digits", ["c13", "c02"])
mut("commitment-verify-ignores-challenge-on-zero", COM, "        rhs.to_element() == expected_commitment\n", "        rhs.to_element() == expected_commitment || bool::from(self.commitment.to_element().is_identity())\n", ["c11"])
# ---- customer side: a reply accepted without (or with a weakened) check
mut("cust-complete-accepts-any-closing-signature", CUS, "        match close_state_signature.verify(config, &self.state.close_state()) {", "        match { let _ = config; Verified } {", ["c03"], count=1)
mut("cust-activate-accepts-any-pay-token", CUS, "        match unblinded_pay_token.verify(config, &self.state) {", "        match { let _ = config; Verified } {", ["c03"], count=2, nth=0)
mut("cust-unlock-accepts-any-pay-token", CUS, "        match unblinded_pay_token.verify(config, &self.state) {", "        match { let _ = config; Verified } {", ["c03"], count=2, nth=1)
mut("cust-lock-accepts-any-closing-signature", CUS, "        match close_state_signature.verify(config, &self.new_state.close_state()) {", "        match { let _ = config; Verified } {", ["c03"])

# ---- decode-time validators weakened / dropped (the bincode-gated negative tests are not in the baseline)
NON = "zkabacus-crypto/src/nonce.rs"
REV = "zkabacus-crypto/src/revlock.rs"
mut("decode-nonce-accepts-close-tag", NON, "        if n != CLOSE_SCALAR {\n            Ok(Self(n))", "        if n != CLOSE_SCALAR || n == CLOSE_SCALAR {\n            Ok(Self(n))", ["c15", "c18"])
mut("decode-revpair-lock-not-compared", REV, "        if unchecked.lock == valid_pair.lock {\n            Ok(valid_pair)", "        if unchecked.lock == valid_pair.lock || true {\n            Ok(valid_pair)", ["c15", "c05"])
mut("decode-revpair-keeps-wire-lock", REV, "        if unchecked.lock == valid_pair.lock {\n            Ok(valid_pair)", "        if unchecked.lock == valid_pair.lock {\n            Ok(RevocationPair { lock: unchecked.lock, ..valid_pair })", ["c15", "c05"])
mut("decode-signature-accepts-identity", PS, "        if bool::from(sigma1.is_identity()) {\n            return Err(", "        if bool::from(sigma1.is_identity()) && bool::from(sigma2.is_identity()) {\n            return Err(", ["c15", "c03"])
mut("decode-publickey-skips-x2", PS, "            || bool::from(g2.is_identity())\n            || bool::from(x2.is_identity())\n", "            || bool::from(g2.is_identity())\n", ["c15"])
mut("decode-secretkey-skips-ys", PS, "            if y.is_zero() {\n                return Err(\"The secret key must not contain zero scalars\".to_string());", "            if y.is_zero() && x.is_zero() {\n                return Err(\"The secret key must not contain zero scalars\".to_string());", ["c15"])
mut("decode-pedersen-skips-h", PED, "        if bool::from(h.is_identity()) {\n            return Err(\"Pedersen parameters must not contain the identity element\".to_string());\n        }\n", "", ["c15"])
# ---- merchant completion / revocation
mut("merchant-complete-always-verified", MER, "            Failed => Err(self),\n        }\n    }\n}", "            Failed => Ok(BlindedPayToken::sign(rng, self.config, self.blinded_state)),\n        }\n    }\n}", ["c05"])
# ---- constants of the range constraint
mut("range-ten-digits", RNG, "const RP_PARAMETER_L: usize = 9;", "const RP_PARAMETER_L: usize = 10;", ["c13", "c10", "c02"])

# ---- && turned into || / disjunctive weakenings
mut("pay-and-to-or-new_revlocks", PRO, "                && new_revlocks_match\n", "                || new_revlocks_match\n", ["c02"])
mut("est-and-to-or-revlocks", PRO, "                && revlocks_match\n", "                || revlocks_match\n", ["c01"])
mut("range-and-to-or", RNG, "        valid_digits && response_scalar == expected_response_scalar", "        valid_digits || response_scalar == expected_response_scalar", ["c13", "c02"])
mut("pay-close-tag-checked-on-either-tuple", PRO, "        let close_tag_matches = close_state_response_scalars[1] == close_tag_matches_expected;", "        let close_tag_matches = close_state_response_scalars[1] == close_tag_matches_expected || state_response_scalars[1] == close_tag_matches_expected;", ["c02"])
mut("ps-verify-wellformed-or-zero-message", PS, "        if !self.is_well_formed() {\n            return false;\n        }\n\n        // x + sum", "        if !self.is_well_formed() && !msg.iter().all(|m| m.is_zero()) {\n            return false;\n        }\n\n        // x + sum", ["c07", "c03"])
mut("verify-opening-or-identity", PED, "        msg.commit(pedersen_params, bf) == *self\n", "        msg.commit(pedersen_params, bf) == *self || bool::from(self.0.is_identity())\n", ["c09", "c05"])

# ---- customer state machine / message construction
mut("closing-message-not-rerandomized", CUS, "        close_signature.randomize(&mut *rng);\n", "        let _ = &mut *rng;\n", ["c14", "c03"])
mut("started-close-uses-new-state-and-old-sig", CUS, "            self.old_close_state_signature,\n            self.old_state.close_state(),", "            self.old_close_state_signature,\n            self.new_state.close_state(),", ["c03", "c04"])
mut("apply-payment-keeps-nonce", STA, "            nonce: Nonce::new(rng),\n            revocation_pair: RevocationPair::new(rng),\n            customer_balance: self.customer_balance.apply(amt)?,", "            nonce: self.nonce,\n            revocation_pair: RevocationPair::new(rng),\n            customer_balance: self.customer_balance.apply(amt)?,", ["c14", "c04", "c02"])
mut("close-state-swaps-balances", STA, "            merchant_balance: *merchant_balance,\n            customer_balance: *customer_balance,\n        }\n    }", "            merchant_balance: MerchantBalance::try_new(customer_balance.into_inner()).unwrap(),\n            customer_balance: CustomerBalance::try_new(merchant_balance.into_inner()).unwrap(),\n        }\n    }", ["c04", "c03", "c01"])

# ---- generation of keys and parameters (C19)
LIB = "zkchannels-crypto/src/lib.rs"
mut("gen-random-non-identity-unchecked", LIB, "            if !bool::from(g.is_identity()) {\n                return g;\n            }", "            if !bool::from(g.is_identity()) || true {\n                return g;\n            }", ["c19"])
mut("gen-pedersen-gs-plain-random", PED, "        let gs = iter::repeat_with(|| random_non_identity(&mut *rng))", "        let gs = iter::repeat_with(|| G::random(&mut *rng))", ["c19", "c09"])
mut("gen-secret-scalar-unchecked-after-first", PS, "        let ys = iter::repeat_with(get_nonzero_scalar)\n", "        let ys = iter::repeat_with(|| Scalar::random(&mut *rng))\n", ["c19"])
# ---- transcripts shared by prover and verifier (one site)
mut("transcript-publickey-drops-x2", PS, "        builder.consume_bytes(self.x2.to_bytes());\n", "", ["c12", "c06"])
mut("transcript-signature-drops-sigma2", PS, "        builder.consume(&self.sigma1);\n        builder.consume(&self.sigma2);", "        builder.consume(&self.sigma1);", ["c12"])
mut("transcript-range-params-drop-key", RNG, "        builder.consume(&self.public_key);\n", "", ["c12", "c13"])
mut("transcript-pedersen-drops-h", PED, "        builder.consume_bytes(self.h.to_bytes());\n", "", ["c12"])

# ---- behaviour-preserving refactors: every listed check must stay OK (a VIOLATION or INCONCLUSIVE here is a false alarm)
mut("refactor-est-early-returns", PRO, "        // Only return Verified outputs if everything passed.\n        match (\n            state_proof_verifies,\n            close_state_proof_verifies,\n            channel_ids_match",
    "        if !revlocks_match {\n            return None;\n        }\n        if !(merchant_balances_match && customer_balances_match) {\n            return None;\n        }\n        // Only return Verified outputs if everything passed.\n        match (\n            state_proof_verifies,\n            close_state_proof_verifies,\n            channel_ids_match", ["c01", "c06", "c12", "c04"])
mut("refactor-pay-reordered-conjuncts", PRO, "            old_pay_token_proof_verifies\n                && old_revlock_proof_verifies\n                && customer_balance_proof_verifies\n                && merchant_balance_proof_verifies",
    "            merchant_balance_proof_verifies\n                && customer_balance_proof_verifies\n                && old_revlock_proof_verifies\n                && old_pay_token_proof_verifies", ["c02", "c06", "c04"])
mut("refactor-pay-amount-hoisted", PRO, "        let customer_balance_properly_updated = state_response_scalars[3]\n            == old_pay_token_response_scalars[3]\n                - challenge.to_scalar() * public_values.amount.to_scalar();",
    "        let scaled_amount = public_values.amount.to_scalar() * challenge.to_scalar();\n        let customer_balance_properly_updated =\n            state_response_scalars[3] + scaled_amount == old_pay_token_response_scalars[3];", ["c02", "c04"])
mut("refactor-ps-verify-negate-sigma", PS, "            (&self.sigma1, &intermediate.to_affine().into()),\n            (&self.sigma2, &public_key.g2.neg().into()),", "            (&self.sigma1.neg(), &intermediate.to_affine().into()),\n            (&self.sigma2, &public_key.g2.into()),", ["c07", "c03", "c08"])
mut("refactor-range-verify-fold", RNG, "        valid_digits && response_scalar == expected_response_scalar", "        if !valid_digits {\n            return false;\n        }\n        expected_response_scalar - response_scalar == Scalar::zero()", ["c13", "c02", "c10"])
mut("refactor-complete-if-let", CUS, "        match close_state_signature.verify(config, &self.state.close_state()) {\n            // If so, save it and enter the `Inactive` state.\n            Verified => Ok(Inactive {", "        match close_state_signature.verify(config, &self.state.close_state()) {\n            Failed => Err(self),\n            Verified => Ok(Inactive {", ["c03", "c04", "c20"])
mut("refactor-verify-opening-sub", PED, "        msg.commit(pedersen_params, bf) == *self\n", "        bool::from((msg.commit(pedersen_params, bf).0 - self.0).is_identity())\n", ["c09", "c05", "c11"])
mut("refactor-nonce-new-do-while", NON, "        loop {\n            if let Ok(n) = Nonce::try_from(UncheckedNonce(Scalar::random(&mut *rng))) {\n                return n;\n            }\n        }", "        let mut s = Scalar::random(&mut *rng);\n        while s == CLOSE_SCALAR {\n            s = Scalar::random(&mut *rng);\n        }\n        Self(s)", ["c18", "c14", "c20"])

SER = "zkchannels-crypto/src/serde.rs"
mut("refactor-g1-decoder-unchecked-plus-torsion-check", SER, "        let maybe_g1: Option<G1Affine> =\n            G1Affine::from_compressed(&serde_big_array::BigArray::deserialize(deserializer)?)\n                .into();",
    "        let maybe_g1: Option<G1Affine> = Option::<G1Affine>::from(G1Affine::from_compressed_unchecked(\n            &serde_big_array::BigArray::deserialize(deserializer)?,\n        ))\n        .filter(|e| bool::from(e.is_on_curve()) && bool::from(e.is_torsion_free()));", ["c15", "c08", "c11", "c02", "c01"])
mut("refactor-ps-verify-correct-small-entry-ladder", PS, "                .map(|(yi, mi)| yi * mi)\n                .sum::<G2Projective>();",
    "                .map(|(yi, mi)| {\n                    let b = mi.to_bytes();\n                    let mut w = [0u8; 8];\n                    w.copy_from_slice(&b[..8]);\n                    let small = u64::from_le_bytes(w);\n                    if Scalar::from(small) == *mi {\n                        let mut acc = G2Projective::identity();\n                        for i in (0..64).rev() {\n                            acc = acc.double();\n                            if (small >> i) & 1 == 1 {\n                                acc += yi;\n                            }\n                        }\n                        acc\n                    } else {\n                        yi * mi\n                    }\n                })\n                .sum::<G2Projective>();", ["c07", "c03", "c08"])
mut("refactor-pedersen-new-in-place-fill", PED, "        let gs = iter::repeat_with(|| random_non_identity(&mut *rng))\n            .take(N)\n            .collect::<ArrayVec<_, N>>()\n            .into_inner()\n            .expect(\"length mismatch impossible\");",
    "        let mut gs = [h; N];\n        for g in gs.iter_mut() {\n            *g = random_non_identity(&mut *rng);\n        }", ["c19", "c09", "c05"])


def sh(cmd, cwd=None, timeout=3600):
    p = subprocess.run(cmd, shell=True, cwd=cwd, stdout=subprocess.PIPE, stderr=subprocess.STDOUT, timeout=timeout, env=ENV)
    return p.returncode, p.stdout.decode(errors="replace")


def run_one(slot, m):
    base = f"{AM}/{slot}"
    os.makedirs(base, exist_ok=True)
    res = dict(id=m["id"], file=m["file"], props={})
    sh(f"rsync -a --delete --exclude target --exclude .git /repo/ {base}/repo/")
    p = f"{base}/repo/{m['file']}"
    s = open(p).read()
    n = s.count(m["old"])
    if n != m["count"]:
        res["status"] = f"pattern occurs {n} times (expected {m['count']})"
        return res
    # replace the nth occurrence
    idx = -1
    for _ in range(m["nth"] + 1):
        idx = s.index(m["old"], idx + 1)
    s = s[:idx] + m["new"] + s[idx + len(m["old"]):]
    open(p, "w").write(s)
    rc, out = sh(f"CARGO_TARGET_DIR={base}/target-test cargo test --workspace --offline 2>&1 | grep -E '^test result|^error|FAILED' | head -20", cwd=f"{base}/repo")
    lines = [l for l in out.splitlines() if l.startswith("test result")]
    if "error" in out and not lines:
        res["status"] = "does not compile: " + out[-300:]
        return res
    if not lines or any(" 0 failed" not in l for l in lines):
        res["status"] = "killed by the existing tests"
        return res
    res["status"] = "survives the test suite"
    sh(f"rsync -a --delete {ROOT}/symex/ {base}/symex/")
    sh(f"grep -rl '/repo/' {base}/symex --include=Cargo.toml | xargs sed -i 's#/repo/#{base}/repo/#g'")
    rc, out = sh(f"CARGO_TARGET_DIR={base}/target cargo build --quiet 2>&1 | grep -E '^error' -A8 | head -20", cwd=f"{base}/symex")
    if out.strip():
        res["status"] += "; harness does not build: " + out[-300:]
        return res
    for pid in m["props"]:
        t0 = time.time()
        outp = f"{base}/{pid}.json"
        if os.path.exists(outp):
            os.remove(outp)
        rc, out = sh(f"{base}/target/debug/vx {pid} --out {outp}", timeout=3000)
        if not os.path.exists(outp):
            res["props"][pid] = dict(verdict="ENGINE-ERROR", detail=out[-200:], s=round(time.time() - t0))
            continue
        d = json.load(open(outp))
        v = "VIOLATION" if d["findings"] else ("INCONCLUSIVE" if d["inconclusive"] else "OK (missed)")
        res["props"][pid] = dict(verdict=v, findings=[f["key"] for f in d["findings"]][:4], replay_kinds=sorted({f.get("replay", {}).get("kind", "") for f in d["findings"]}),
                                 inconclusive=d["inconclusive"][:2], s=round(time.time() - t0))
    return res


def main():
    jobs = 4
    only = None
    a = sys.argv[1:]
    for i, x in enumerate(a):
        if x == "--jobs":
            jobs = int(a[i + 1])
        if x == "--only":
            only = a[i + 1]
    os.makedirs(AM, exist_ok=True)
    outdir = os.path.join(ROOT, "seeded-auto")
    os.makedirs(outdir, exist_ok=True)
    rp = os.path.join(outdir, "results.json")
    results = json.load(open(rp)) if os.path.exists(rp) else {}
    todo = [m for m in M if (not only or only in m["id"]) and not ("--skip-done" in a and m["id"] in results)]
    slots = list(range(jobs))
    import queue
    q = queue.Queue()
    for s in slots:
        q.put(s)

    def work(m):
        s = q.get()
        try:
            r = run_one(s, m)
        except Exception as e:  # noqa
            r = dict(id=m["id"], file=m["file"], status=f"error: {e}", props={})
        finally:
            q.put(s)
        print(r["id"], "::", r["status"], {k: v["verdict"] for k, v in r["props"].items()}, flush=True)
        return r

    with cf.ThreadPoolExecutor(max_workers=jobs) as ex:
        for r in ex.map(work, todo):
            r["verif_commit"] = sh("git rev-parse --short HEAD", cwd=ROOT)[1].strip()
            r["mutation"] = next(dict(file=m["file"], old=m["old"], new=m["new"]) for m in M if m["id"] == r["id"])
            results[r["id"]] = r
            json.dump(results, open(rp, "w"), indent=1)
    # table
    with open(os.path.join(outdir, "TABLE.md"), "w") as f:
        f.write("| mutant | file | test suite | checks |\n|---|---|---|---|\n")
        for k in sorted(results):
            r = results[k]
            lab = lambda v: "OK (no alarm)" if k.startswith("refactor-") and v.startswith("OK") else v
            f.write(f"| `{k}` | {r['file']} | {r['status'][:60]} | " + ", ".join(f"{p.upper()}: {lab(v['verdict'])}" for p, v in r["props"].items()) + " |\n")
    shutil.rmtree(AM, ignore_errors=True)


if __name__ == "__main__":
    main()

#!/usr/bin/env python3
"""Evaluate a seeded change:  lib/seedtest.py <worktree-dir|-> <seed-id> [--props C01,C02|all] [--skip-confirm]
 1. confirm in the scratch worktree: existing suite green with the change, demo fails with / passes without it
 2. copy patch + demo + meta into /verif/seeded/<seed-id>/
 3. apply the patch to /repo, run the chosen checks (quick), undo
"""
import json, os, subprocess, sys, shutil, time, glob
ROOT = os.path.dirname(os.path.dirname(os.path.abspath(__file__)))


def sh(cmd, cwd=None, timeout=3600):
    p = subprocess.run(cmd, shell=True, cwd=cwd, stdout=subprocess.PIPE, stderr=subprocess.STDOUT, timeout=timeout, env=dict(os.environ, CARGO_NET_OFFLINE="true"))
    return p.returncode, p.stdout.decode(errors="replace")


def main():
    wt, sid = sys.argv[1], sys.argv[2]
    props = "all"
    skip = "--skip-confirm" in sys.argv
    for i, a in enumerate(sys.argv):
        if a == "--props":
            props = sys.argv[i + 1]
    dest = os.path.join(ROOT, "seeded", sid)
    if wt == "-":
        # re-evaluation of a kept change (the scratch worktree is gone): use /verif/seeded/<id>/patch.diff
        sd, skip = dest, True
    else:
        sd = os.path.join(wt, "_seeded")
    patch = os.path.join(sd, "patch.diff")
    assert os.path.exists(patch), "no patch.diff"
    os.makedirs(dest, exist_ok=True)
    for f in glob.glob(os.path.join(sd, "*")):
        if os.path.isfile(f) and sd != dest:
            shutil.copy(f, dest)
    meta_p = os.path.join(dest, "meta.json")
    meta = json.load(open(meta_p)) if os.path.exists(meta_p) else {}
    meta.setdefault("seed_id", sid)
    notes = open(os.path.join(sd, "notes.md")).read() if os.path.exists(os.path.join(sd, "notes.md")) else ""
    meta["notes_excerpt"] = notes[:1500]
    if not skip:
        demo_cmd = meta.get("demo_cmd") or os.environ.get("DEMO_CMD")
        assert demo_cmd, "set DEMO_CMD"
        meta["demo_cmd"] = demo_cmd
        # with the change (worktree is left with the change applied)
        rc, out = sh("git status --short | head -20", cwd=wt)
        # the existing suite = everything except the demonstration itself
        demos = [f for f in glob.glob(os.path.join(wt, "*", "tests", "seeded_demo*.rs"))]
        for d in demos:
            os.rename(d, d + ".aside")
        rc_t, out_t = sh("cargo test --workspace --offline 2>&1 | grep -E '^test result|FAILED|panicked' | head -30", cwd=wt)
        for d in demos:
            os.rename(d + ".aside", d)
        ok_suite = "FAILED" not in out_t and "failed;" in out_t and all(" 0 failed" in l for l in out_t.splitlines() if l.startswith("test result"))
        rc_d, out_d = sh(demo_cmd + " 2>&1 | tail -15", cwd=wt)
        fails_with = ("FAILED" in out_d) or ("panicked" in out_d) or ("error" in out_d.lower() and "test result: ok" not in out_d)
        sh(f"git apply -R {patch}", cwd=wt)
        rc_d2, out_d2 = sh(demo_cmd + " 2>&1 | tail -15", cwd=wt)
        passes_without = "test result: ok" in out_d2 and "FAILED" not in out_d2
        sh(f"git apply {patch}", cwd=wt)
        meta["confirmed"] = {"existing_suite_green_with_change": ok_suite, "demo_fails_with_change": fails_with, "demo_passes_without_change": passes_without,
                             "suite_summary": out_t[-600:], "demo_with": out_d[-500:], "demo_without": out_d2[-300:]}
        print("confirm:", ok_suite, fails_with, passes_without)
    # run checks against /repo with the patch applied
    rc, out = sh("git status --short", cwd="/repo")
    assert out.strip() == "", "/repo not clean: " + out
    rc, out = sh(f"git apply --check {patch}", cwd="/repo")
    if rc != 0:
        meta["apply_error"] = out[-400:]
        json.dump(meta, open(meta_p, "w"), indent=1)
        print("patch does not apply to /repo:", out)
        return 2
    sh(f"git apply {patch}", cwd="/repo")
    results = {}
    try:
        ids = [c["property_id"] for c in json.load(open(os.path.join(ROOT, "MANIFEST.json")))["checks"]] if props == "all" else props.split(",")
        for pid in ids:
            t0 = time.time()
            rc, out = sh(f"./check {pid} --tier quick", cwd=ROOT, timeout=3000)
            lines = [l for l in out.splitlines() if l.startswith(("VIOLATION", "KNOWN-FINDING", "OK ", "INCONCLUSIVE", "finding:"))]
            results[pid] = {"rc": rc, "s": round(time.time() - t0), "lines": lines[:6], "tail": out[-300:] if rc == 2 else ""}
            print(pid, rc, lines[:2])
    finally:
        sh("git checkout -- .", cwd="/repo")
        sh("git status --short", cwd="/repo")
    meta.setdefault("runs", []).append({"at": time.strftime("%Y-%m-%d %H:%M"), "verif_commit": sh("git rev-parse --short HEAD", cwd=ROOT)[1].strip(), "results": results})
    meta["detected_by"] = sorted(p for p, r in results.items() if r["rc"] == 1)
    json.dump(meta, open(meta_p, "w"), indent=1)
    return 0


if __name__ == "__main__":
    sys.exit(main())

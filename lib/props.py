"""Per-property registry (engines, claim text) and evidence assembly."""
import json, os

ROOT = os.path.dirname(os.path.dirname(os.path.abspath(__file__)))

# engines: E1 = native symbolic execution over the algebra stand-in + z3; E2 = Kani/CBMC
PROPS = {}


def reg(pid, engines, technique, text, note, design_ref):
    PROPS[pid] = dict(engines=engines, technique=technique, text=text, note=note, design_ref=design_ref)


E1T = "symbolic execution of the real Rust code over a symbolic-term stand-in for bls12_381/sha3; path conditions and goals discharged by z3 (SMT, Int mod q)"
E2T = "Kani / CBMC bounded model checking of the compiled code over kani::any() inputs"
TB = ("trusted base: bls12_381 is a prime-order bilinear group with canonical injective encodings (modelled exactly by discrete logs), "
      "sha3 is an ideal hash, z3's verdicts (unknown/timeouts are inconclusive); bounds as listed in the evidence")

reg("C01", ["E1"], E1T,
    "Bounded model checking of merchant::Config::initialize on a fully symbolic EstablishProof: every verifier path with <= d failing comparisons is executed; "
    "accept => each conjunct of the reference relation and reject => not(reference) are SMT validity queries; special soundness (two transcripts, rewound oracle) yields every slot relation on the extracted witness; "
    "every non-response atom must be bound by the challenge; the returned blind signatures are shown to be on exactly the proven commitments and to unblind only to signatures on the committed message.",
    TB + "; Pedersen binding / PS unforgeability are not posed (computational)", "DESIGN.md section 4, C01")
reg("C02", ["E1"], E1T,
    "Bounded model checking of merchant::Config::allow_payment on a fully symbolic PayProof (20 sub-proofs, ~70 comparison sites): accept-set against a 34-conjunct reference relation, "
    "special soundness goals (old state opened, nonce, channel id, close tag, lock linkage, balance update by exactly the amount, range link, pay token is a PS signature on the extracted old state), "
    "integer obligation on the verifier's own digit weights, and binding of every non-response atom / statement component.",
    TB + "; digit signatures exist only for 0..127 and PS unforgeability are assumptions", "DESIGN.md section 4, C02")
reg("C03", ["E1"], E1T,
    "Bounded model checking of the customer state machine: at each of the four merchant-reply positions a fully symbolic reply (two arbitrary G1 elements through the real Deserialize) is refused exactly when its unblinded form is not a valid signature on the expected (close) state, "
    "accepted only when it is, and a refused reply leaves the serialised state identical; from every stage (inactive, ready, started, locked, ready after payment) the closing message carries the ledger's balances, a lock not disclosed in any lock message, and the merchant's close check is forced to accept.",
    TB + "; histories of one payment per run (longer histories outside the bound)", "DESIGN.md section 4, C03")
reg("C04", ["E1"], E1T,
    "Bounded model checking of complete honest runs (establish, payments, close) for balances/amounts on the boundary lattice: every verifier-side comparison on the run is proved forced for all random draws (validity query per decision), "
    "reported balances are compared with 128-bit ledger arithmetic at every stage, out-of-range payments return the documented error with an unchanged state and no proof transcript hashed.",
    TB + "; the for-all over integers of the arithmetic itself is C17 (Kani)", "DESIGN.md section 4, C04")
reg("C05", ["E1"], E1T,
    "Bounded model checking of Unrevoked::complete_payment on a fully symbolic candidate revocation pair and blinding factor: Ok <=> the Pedersen opening relation on the commitment taken from the accepted pay proof, "
    "the token is a blind signature on the proof's state commitment, a refused attempt hands back a pending payment that the honest lock message completes for every draw; "
    "RevocationPair decode/generation: all paths, success <=> lock = canonical SHA3(secret||index) with the transcript checked item by item.",
    TB, "DESIGN.md section 4, C05")
reg("C06", ["E1"], E1T,
    "Bounded model checking: an honest establish / pay proof checked under its own tuple and under the tuple with one component substituted (channel id, balances +-1, nonce, amount +-1/sign, context byte, key / range-parameter / revocation-parameter atoms): "
    "the substituted run rejects (witness confirmed by the solver), and 'both accept' is refuted up to the explicit exceptional set (identity commitment / zero challenge); replies replayed across sessions (other channel, other balances, other merchant) are refused; "
    "a closing message with any one field replaced fails the merchant's close check unless the replacement equals the original.",
    TB + "; distinct transcripts give distinct challenge residues (random-oracle idealisation)", "DESIGN.md section 4, C06")
reg("C07", ["E1"], E1T,
    "Bounded model checking of Signature::verify on symbolic (key, message, signature) incl. decode: result <=> (sigma1 != 1 and pairing relation) on every path; "
    "every signature derived by chains of sign / randomize / blind_and_randomize+unblind / blind-sign+unblind (length <= 3) is shown to verify on every feasible path when re-randomisers are non-zero and never when the last one is zero; "
    "message-coordinate, key-element and blinding-factor uniqueness are refutation queries with explicit zero-product lemmas.",
    TB, "DESIGN.md section 4, C07")
reg("C08", ["E1"], E1T,
    "Bounded model checking: SignatureRequestProof::verify_knowledge_of_opening on symbolic proofs returns Some exactly when the Schnorr equation holds, the blind signature is on that proof's own commitment atom, "
    "honest requests unblind to a signature that verifies on the requester's tuple on every feasible path and on no tuple differing in a coordinate; tampered requests / challenges are refuted.",
    TB, "DESIGN.md section 4, C08")
reg("C09", ["E1"], E1T,
    "Bounded model checking: every path of Commitment::{new,verify_opening}, Message::commit, the key->parameter conversions and PedersenParameters::new "
    "is executed symbolically for N in {1,2,3,5}(+8,13) in G1 and G2; exact-map, accept<=>equality, uniqueness and additivity are SMT validity queries over all scalars.",
    TB, "DESIGN.md section 4, C09")
reg("C10", ["E1"], E1T,
    "Bounded model checking of the honest provers: for fully symbolic messages and every chosen-commitment-scalar subset, the builder and proof transcripts are identical and verification returns true on every feasible path "
    "(all verifier decisions flipped, flipped paths proved infeasible); partial-opening, equality, secret-sum, public-addition, public-product and range-link relations are validity queries on the response scalars.",
    TB, "DESIGN.md section 4, C10")
reg("C11", ["E1"], E1T,
    "Bounded model checking: the three proof verifiers run on fully symbolic proofs, parameters and challenge (all 2^K paths, N in {1,2,3,5}(+8,13)); "
    "accept <=> Schnorr / pairing relation is an SMT validity query per path; every single-atom, challenge and parameter perturbation is refuted under stated non-degeneracy; "
    "the prover-built all-identity signature proof is shown rejected on every feasible path.",
    TB, "DESIGN.md section 4, C11")
reg("C12", ["E1", "E2"], E1T + "; plus " + E2T,
    "Bounded model checking: the challenge transcripts computed by the real ChallengeInput impls and inside initialize / allow_payment are recorded by the ideal-hash stand-in; "
    "for every wire atom of every proof type, key, parameter set and statement component the query 'equal digest and different atom' must be unsat (response scalars: documented sat twin); builder and proof transcripts must be identical. "
    "Kani part: for EVERY 32-byte channel id, ChannelId::to_scalar is from_raw of its four little-endian words and changes with every single byte (hook channel_id_to_scalar).",
    TB, "DESIGN.md section 4, C12")
reg("C13", ["E1", "E2"], E1T + "; thorough tier adds " + E2T,
    "Bounded model checking of RangeConstraint::verify_range_constraint on a fully symbolic constraint (accept-set against 9 digit-proof relations + link equation, d failing checks), "
    "the verifier's own link weights extracted from its path condition and fed to an integer query (digits in [0,128) => value in [0,2^63), maximum exactly 2^63-1), mismatch of link/challenge/key refuted, "
    "RangeConstraintParameters::validate exact for single failing signatures; prover sign test on lattice values; thorough tier: Kani proves for ALL i64 that generate_constraint_commitments errs exactly on negatives, never panics, and decomposes every accepted value into nine digits < 128 with sum d_j 128^j = value (hook-built parameters, digit-recording hook, canonical-integer Scalar; ~5-15 min).",
    TB + "; digit signatures exist only for 0..127 (signing key discarded) is an assumption", "DESIGN.md section 4, C13")
reg("C18", ["E1"], E1T,
    "Bounded model checking: Nonce::new over arbitrary draws incl. the crafted close-tag stream (retry paths), Nonce decode exact, the state's nonce slot != close tag, "
    "a pay token re-labelled as closing signature (merchant close check) and a closing signature re-labelled as pay token (through a restored customer state and allow_payment) are rejected on every feasible path; "
    "ChannelId::new: equal digest forces equality of each of the five inputs (symbolic randomness / key atoms, string lattice).",
    TB, "DESIGN.md section 4, C18")
reg("C19", ["E1"], E1T,
    "Bounded model checking of KeyPair::new, PedersenParameters::new, RangeConstraintParameters::new, merchant::Config::new with every draw free (zero / identity allowed, <= d degenerate draws then retry): "
    "on every returning path all secret scalars are non-zero, all public elements non-identity, G1/G2 halves share logarithms, the library's own decode-time validation and validate() are forced to accept, and signatures verify; plus crafted zero-window streams.",
    TB, "DESIGN.md section 4, C19")
reg("C14", ["E1"], E1T,
    "Bounded model checking of reuse / exposure over a two-channel history: every atom of every customer message is compared with every atom the merchant saw earlier (public parameters, replies, earlier messages) and with every secret scalar in the serialised customer state at send time; "
    "pairs that coincide under the shadow randomness are posed as validity queries (equal for every randomness = violation), differing pairs are confirmed by a solver witness; response scalars answering secrets must carry a mask that is neither zero nor a value in the merchant's view.",
    TB + "; necessary condition only (exact reuse / direct exposure), not zero-knowledge", "DESIGN.md section 4, C14")
reg("C20", ["E1"], E1T,
    "Bounded model checking of store-and-restore at each of the five customer stages (and right after a refused reply): the real Deserialize is forced to accept the stored image, re-encoding is identical, "
    "original and restored copy judge a symbolic reply by equivalent conditions, emit byte-identical next messages under the same draw variables, reach identical next states and close with identical messages that pass the merchant's close check.",
    TB, "DESIGN.md section 4, C20")
reg("C17", ["E2"], E2T,
    "Bounded model checking (Kani/CBMC) of the balance and amount arithmetic over all 64-bit inputs, including every amount decodable from the wire (i64::MIN): "
    "no panic/overflow, success exactly when the i128 reference result is in range, documented error variants, and scalar encoding = field embedding / additive homomorphism (canonical-integer Scalar stand-in).",
    "trusted base: Kani's translation of MIR, CBMC+cadical; contract assumed of bls12_381::Scalar: from(u64) is the ring embedding and +,-,neg are the field operations", "DESIGN.md section 4, C17")
reg("C15", ["E1", "E2"], E1T + " + " + E2T,
    "Bounded model checking: for every serialisable type of both crates (table checked against a scan of the sources at every run) an honest value round-trips with the decode forced for all atom values and an identical re-encoding; "
    "on a fully symbolic image every type invariant is a validity query on the accepting path (no identity generator / key element / sigma1, no zero secret scalar, nonce != close tag, lock = canonical digest of the secret), "
    "every decode-time check, flipped, makes decoding fail, and every atom replaced by an invalid-encoding token is refused; balances decoded from 8 arbitrary bytes are <= 2^63-1 (Kani).",
    TB + "; the channel-id text form (Display/FromStr through base64 and fmt) is NOT covered (Kani did not finish in 600 s); atom decoders of bls12_381 are external", "DESIGN.md section 4, C15")
reg("C16", ["E1", "E2"], E2T + " + " + E1T,
    "Kani: the three generic container codecs of serde.rs with a toy element, symbolic element count (<= N+2), size hint (all of Option<usize>), element bytes and failing position: no panic, Ok exactly for N good elements, Vec capacity bounded. "
    "E1 driver: every composite type decoded from images with every length prefix / tag byte mutated, truncated at every field boundary and extended, under catch_unwind with allocation metering.",
    "trusted base: Kani/CBMC; atom decoders of bls12_381 on arbitrary bytes are external and assumed total; N > 5 for the generic visitors outside the bound", "DESIGN.md section 4, C16")


def evidence(pid, tier, seed, spec, parts, findings, violations, known_hits, inconclusive, wall):
    states = sum(p.get("paths", 0) for p in parts)
    trans = sum(p.get("decisions", 0) for p in parts)
    nob = sum(p.get("n_obligations", 0) for p in parts)
    held = sum(p.get("held", 0) for p in parts)
    samples = []
    for p in parts:
        samples += p.get("samples", [])[:8]
        for o in p.get("obligation_records", [])[:6]:
            samples.append({"obligation": o.get("name"), "kind": o.get("kind"), "verdict": o.get("verdict"),
                            "solver_ms": o.get("solver_ms"), "smt_bytes": o.get("smt_bytes")})
    if not samples:
        samples = [{"note": "no obligation was generated"}]
    distinct = set()
    for p in parts:
        for o in p.get("obligation_records", []):
            if o.get("smt_bytes", 1) != 0:
                distinct.add(o.get("name"))
    n_distinct = max(sum(p.get("distinct_nontrivial", 0) for p in parts), len(distinct))
    cov = {
        "states": max(states, 0),
        "transitions": max(trans, 0),
        "traces_validated_against_impl": sum(p.get("traces_validated_against_impl", 0) for p in parts),
        "samples": samples[:24],
        "obligations": nob,
        "discharged": held,
        "evaluations": max(nob, 1),
        "distinct_nontrivial": n_distinct,
        "rule": "one evaluation = one solver query (SMT obligation or CBMC harness); distinct = distinct obligation names that reached the solver (syntactically identical terms are counted as trivial and excluded)",
        "exhaustive": False,
        "functions_encoded": sorted({f for p in parts for f in p.get("functions_encoded", [])}),
        "bounds": sorted({f for p in parts for f in p.get("bounds", [])}),
        "stubs": sorted({f for p in parts for f in p.get("stubs", [])}),
        "solver_s": round(sum(p.get("solver_s", 0) for p in parts), 2),
        "solvers": [p.get("solvers") for p in parts],
        "engines": [p.get("engine") for p in parts],
        "obligations_by_kind": [p.get("obligations_by_kind") for p in parts],
        "inconclusive": inconclusive[:50],
        "findings": [{"key": f["key"], "detail": f["detail"], "engine": f.get("engine"), "replay": f.get("replay_result")} for f in findings],
        "known_findings_reported": [f["key"] for f in known_hits],
        "notes": [n for p in parts for n in p.get("notes", [])][:40],
        "technique": spec["technique"],
    }
    assumptions = sorted({a for p in parts for a in p.get("assumptions", [])})
    assumptions.append(spec["note"])
    return {
        "property_id": pid,
        "tier": tier,
        "seed": seed,
        "level": "model_checking",
        "coverage": cov,
        "assumptions": assumptions,
        "wall_s": round(wall, 2),
        "violations": len(violations),
    }

# commits in /repo that add the feature-guarded hooks (cargo feature `verif-hooks`, off by default)
HOOK_COMMITS = ["21124ac", "8c946cd", "e45b145", "f1faf4a"]

//! Replay of candidate violations against the REAL crates (real bls12_381, genuine SHA3-256 with a
//! transcript log).  `rp <command> <json-args>`; prints one JSON object on the last stdout line:
//! {"reproduced": bool, "detail": "..."}.
#[path = "../../../symex/vx/src/layout.rs"]
mod layout;
#[path = "../../../symex/vx/src/scenarios.rs"]
mod scenarios;

use bls12_381::{G1Affine, G1Projective, G2Affine, G2Projective, Scalar};
use ff::Field;
use group::Curve;
use rand::{rngs::StdRng, SeedableRng};
use serde_json::{json, Value};
use zkabacus_crypto::{
    customer::{self, Requested},
    merchant, ChannelId, Context, CustomerBalance, CustomerRandomness, EstablishProof, MerchantBalance, MerchantRandomness, Nonce,
    PayProof, PaymentAmount,
};
use zkchannels_crypto::{pointcheval_sanders::BlindedSignature, proofs::*, Message};

fn hex(b: &[u8]) -> String {
    b.iter().map(|x| format!("{:02x}", x)).collect()
}

struct W {
    m: merchant::Config,
    c: customer::Config,
    rng: StdRng,
}
fn world(seed: u64) -> W {
    let mut s = [0u8; 32];
    s[..8].copy_from_slice(&seed.to_le_bytes());
    let mut rng = StdRng::from_seed(s);
    let m = merchant::Config::new(&mut rng);
    let (pk, cp, rp) = m.extract_customer_config_parts();
    let c = customer::Config::from_parts(pk, cp, rp);
    W { m, c, rng }
}
fn cid(w: &mut W) -> ChannelId {
    ChannelId::new(MerchantRandomness::new(&mut w.rng), CustomerRandomness::new(&mut w.rng), w.c.merchant_public_key(), b"merchant", b"customer")
}
fn amount(v: i64) -> PaymentAmount {
    if v >= 0 {
        PaymentAmount::pay_merchant(v as u64).unwrap()
    } else {
        PaymentAmount::pay_customer(v.unsigned_abs()).unwrap()
    }
}

/// change one wire atom to a different valid encoding of the same type
fn bump(bytes: &mut [u8]) -> Result<(), String> {
    match bytes.len() {
        32 => {
            let mut a = [0u8; 32];
            a.copy_from_slice(bytes);
            let s: Option<Scalar> = Scalar::from_bytes(&a).into();
            let s = s.ok_or("not a canonical scalar")?;
            bytes.copy_from_slice(&(s + Scalar::one()).to_bytes());
        }
        48 => {
            let mut a = [0u8; 48];
            a.copy_from_slice(bytes);
            let p: Option<G1Affine> = G1Affine::from_compressed(&a).into();
            let p = p.ok_or("not a G1 element")?;
            bytes.copy_from_slice(&(G1Projective::from(p) + G1Projective::generator()).to_affine().to_compressed());
        }
        96 => {
            let mut a = [0u8; 96];
            a.copy_from_slice(bytes);
            let p: Option<G2Affine> = G2Affine::from_compressed(&a).into();
            let p = p.ok_or("not a G2 element")?;
            bytes.copy_from_slice(&(G2Projective::from(p) + G2Projective::generator()).to_affine().to_compressed());
        }
        n => return Err(format!("unsupported atom width {}", n)),
    }
    Ok(())
}

/// C12 (zkAbacus level): alter one atom of an honest proof and compare the transcripts the real merchant hashes
fn unbound_atom(args: &Value) -> Value {
    let proof = args["proof"].as_str().unwrap_or("");
    let atom = args["atom"].as_str().unwrap_or("");
    let mut w = world(args["seed"].as_u64().unwrap_or(7));
    let id = cid(&mut w);
    let ctx = Context::new(b"replay establish");
    let (cb, mb) = (CustomerBalance::try_new(100).unwrap(), MerchantBalance::try_new(50).unwrap());
    let (req, eproof) = Requested::new(&mut w.rng, &w.c, id, mb, cb, &ctx);
    let run_est = |w: &mut W, bytes: &[u8]| -> (Option<bool>, Vec<u8>, [u8; 32]) {
        let _ = sha3::take_log();
        let p: Result<EstablishProof, _> = bincode::deserialize(bytes);
        let acc = p.ok().map(|p| w.m.initialize(&mut w.rng, &id, cb, mb, p, &ctx).is_some());
        let log = sha3::take_log();
        let (t, d) = log.last().cloned().unwrap_or((vec![], [0; 32]));
        (acc, t, d)
    };
    if proof == "EstablishProof" {
        let l = layout::layout(&eproof);
        let f = match l.fields.iter().find(|f| f.path == atom) {
            Some(f) => f.clone(),
            None => return json!({"reproduced": false, "detail": format!("no field {} in the wire form", atom)}),
        };
        let mut b2 = l.bytes.clone();
        if let Err(e) = bump(&mut b2[f.off..f.off + f.len]) {
            return json!({"reproduced": false, "detail": e});
        }
        let (a1, t1, d1) = run_est(&mut w, &l.bytes);
        let (a2, t2, d2) = run_est(&mut w, &b2);
        let same = t1 == t2 && d1 == d2 && !t1.is_empty();
        return json!({"reproduced": same, "detail": format!("honest proof accepted={:?}; with {} altered accepted={:?}; merchant's challenge transcript identical={} ({} bytes, digest {})", a1, atom, a2, same, t1.len(), hex(&d1)),
            "proof_bytes": hex(&l.bytes), "altered_bytes": hex(&b2)});
    }
    // pay proof: establish honestly first
    let (closing, vbs) = match w.m.initialize(&mut w.rng, &id, cb, mb, eproof, &ctx) {
        Some(x) => x,
        None => return json!({"reproduced": false, "detail": "honest establish rejected"}),
    };
    let inactive = req.complete(closing, &w.c).ok().expect("complete");
    let pt = w.m.activate(&mut w.rng, vbs);
    let ready = inactive.activate(pt, &w.c).ok().expect("activate");
    let pctx = Context::new(b"replay pay");
    let (_started, start) = ready.start(&mut w.rng, amount(7), &pctx, &w.c).ok().expect("start");
    let nonce = start.nonce;
    let l = layout::layout(&start.pay_proof);
    let f = match l.fields.iter().find(|f| f.path == atom) {
        Some(f) => f.clone(),
        None => return json!({"reproduced": false, "detail": format!("no field {} in the wire form", atom)}),
    };
    let mut b2 = l.bytes.clone();
    if let Err(e) = bump(&mut b2[f.off..f.off + f.len]) {
        return json!({"reproduced": false, "detail": e});
    }
    let mut run_pay = |bytes: &[u8]| -> (Option<bool>, Vec<u8>, [u8; 32]) {
        let _ = sha3::take_log();
        let p: Result<PayProof, _> = bincode::deserialize(bytes);
        let acc = p.ok().map(|p| w.m.allow_payment(&mut w.rng, amount(7), &nonce, p, &pctx).is_some());
        let log = sha3::take_log();
        let (t, d) = log.last().cloned().unwrap_or((vec![], [0; 32]));
        (acc, t, d)
    };
    let (a1, t1, d1) = run_pay(&l.bytes);
    let (a2, t2, d2) = run_pay(&b2);
    let same = t1 == t2 && d1 == d2 && !t1.is_empty();
    json!({"reproduced": same, "detail": format!("honest pay proof accepted={:?}; with {} altered accepted={:?}; merchant's challenge transcript identical={} ({} bytes, digest {})", a1, atom, a2, same, t1.len(), hex(&d1))})
}

/// C01: adaptive forgery of an establish proof for balances other than the agreed ones, choosing the
/// four revealed commitment scalars after the challenge (works iff they are not hashed)
fn forge_establish(args: &Value) -> Value {
    let mut w = world(args["seed"].as_u64().unwrap_or(7));
    let id = cid(&mut w);
    let ctx = Context::new(b"replay establish");
    let (cb, mb) = (10u64, 1000u64);
    let (cb_l, mb_l) = (1010u64, 0u64);
    let pk = w.c.merchant_public_key().clone();
    let b = id.to_bytes();
    let mut limbs = [0u64; 4];
    for i in 0..4 {
        limbs[i] = u64::from_le_bytes(b[8 * i..8 * i + 8].try_into().unwrap());
    }
    let cid_s = Scalar::from_raw(limbs);
    let nonce = Scalar::random(&mut w.rng);
    let revlock = Scalar::random(&mut w.rng);
    let close = zkabacus_crypto::CLOSE_SCALAR;
    let st_msg = [cid_s, nonce, revlock, Scalar::from(cb_l), Scalar::from(mb_l)];
    let cl_msg = [cid_s, close, revlock, Scalar::from(cb_l), Scalar::from(mb_l)];
    let sb = SignatureRequestProofBuilder::generate_proof_commitments(&mut w.rng, Message::new(st_msg), &[None; 5], &pk);
    let cs = *sb.conjunction_commitment_scalars();
    let cbld = SignatureRequestProofBuilder::generate_proof_commitments(&mut w.rng, Message::new(cl_msg), &[Some(cs[0]), None, Some(cs[2]), Some(cs[3]), Some(cs[4])], &pk);
    let close_bf = cbld.message_blinding_factor();
    // the verifier's challenge for the AGREED statement; the forger first tries the transcript without the
    // revealed scalars and then learns the real one from the recorder
    let c = ChallengeBuilder::new().with(&pk).with(&cid_s).with(&close).with(&Scalar::from(cb)).with(&Scalar::from(mb)).with(&sb).with(&cbld).with_bytes(ctx.as_bytes()).finish();
    let sp = sb.generate_proof_response(c);
    let cp = cbld.generate_proof_response(c);
    let zs = *sp.conjunction_response_scalars();
    let zc = *cp.conjunction_response_scalars();
    let k = [zs[0] - c.to_scalar() * cid_s, zc[1] - c.to_scalar() * close, zs[3] - c.to_scalar() * Scalar::from(cb), zs[4] - c.to_scalar() * Scalar::from(mb)];
    let mut bytes = vec![];
    for x in k {
        bytes.extend_from_slice(&x.to_bytes());
    }
    bytes.extend(bincode::serialize(&sp).unwrap());
    bytes.extend(bincode::serialize(&cp).unwrap());
    let proof: EstablishProof = match bincode::deserialize(&bytes) {
        Ok(p) => p,
        Err(e) => return json!({"reproduced": false, "detail": format!("forged bytes do not decode: {}", e)}),
    };
    let res = w.m.initialize(&mut w.rng, &id, CustomerBalance::try_new(cb).unwrap(), MerchantBalance::try_new(mb).unwrap(), proof, &ctx);
    match res {
        None => json!({"reproduced": false, "detail": "forged establish proof rejected"}),
        Some((closing_sig, _)) => {
            let raw = bincode::serialize(&closing_sig).unwrap();
            let bs: BlindedSignature = bincode::deserialize(&raw).unwrap();
            let sig = bs.unblind(close_bf);
            let ok_false = sig.verify(&pk, &Message::new(cl_msg));
            let ok_true = sig.verify(&pk, &Message::new([cid_s, close, revlock, Scalar::from(cb), Scalar::from(mb)]));
            json!({"reproduced": ok_false && !ok_true,
                   "detail": format!("real initialize ACCEPTED a proof for hidden balances ({},{}) under agreed ({},{}); closing signature valid on hidden state: {}, on agreed state: {}", cb_l, mb_l, cb, mb, ok_false, ok_true),
                   "proof_bytes": hex(&bytes)})
        }
    }
}

fn scalar_from_dec(d: &str) -> Scalar {
    let mut r = [0u64; 4];
    for ch in d.bytes() {
        let mut c = (ch - b'0') as u128;
        for limb in r.iter_mut() {
            let t = (*limb as u128) * 10 + c;
            *limb = t as u64;
            c = t >> 64;
        }
    }
    Scalar::from_raw(r)
}

/// C01: the fake witness found in witness space (an offset `delta` from an honest witness), run through the PUBLIC
/// builders against the real merchant: hidden tuples = honest + delta, commitment scalars = honest + delta, revealed
/// scalars = honest + delta; the challenge is the verifier's own (learnt from a draft through the recording SHA3).
fn lie_establish(args: &Value) -> Value {
    let mut w = world(args["seed"].as_u64().unwrap_or(11));
    let id = cid(&mut w);
    let ctx = Context::new(b"replay establish");
    let (cb, mb) = (args["cb"].as_u64().unwrap_or(10), args["mb"].as_u64().unwrap_or(1000));
    let pk = w.c.merchant_public_key().clone();
    let b = id.to_bytes();
    let mut limbs = [0u64; 4];
    for i in 0..4 {
        limbs[i] = u64::from_le_bytes(b[8 * i..8 * i + 8].try_into().unwrap());
    }
    let cid_s = Scalar::from_raw(limbs);
    let close = zkabacus_crypto::CLOSE_SCALAR;
    let nonce = Scalar::random(&mut w.rng);
    let lock = Scalar::random(&mut w.rng);
    let d = |n: &str| -> Scalar { args["delta"].get(n).and_then(|v| v.as_str()).map(scalar_from_dec).unwrap_or_else(Scalar::zero) };
    let mut ms = [cid_s, nonce, lock, Scalar::from(cb), Scalar::from(mb)];
    let mut mc = [cid_s, close, lock, Scalar::from(cb), Scalar::from(mb)];
    let mut ks = [Scalar::zero(); 5];
    for k in ks.iter_mut() {
        *k = Scalar::random(&mut w.rng);
    }
    let mut kc = [ks[0], Scalar::random(&mut w.rng), ks[2], ks[3], ks[4]];
    let mut kappa = [kc[0], kc[1], kc[3], kc[4]];
    for i in 0..5 {
        ms[i] += d(&format!("w.ms{}", i));
        mc[i] += d(&format!("w.mc{}", i));
        ks[i] += d(&format!("w.ks{}", i));
        kc[i] += d(&format!("w.kc{}", i));
    }
    for (j, n) in ["w.kappa0", "w.kappa1", "w.kappa3", "w.kappa4"].iter().enumerate() {
        kappa[j] += d(n);
    }
    let agreed_s = [cid_s, nonce, lock, Scalar::from(cb), Scalar::from(mb)];
    let lies: Vec<String> = (0..5).filter(|i| ms[*i] != agreed_s[*i] && *i != 1 && *i != 2).map(|i| format!("state slot {}", i))
        .chain((0..5).filter(|i| (*i != 2 && mc[*i] != [cid_s, close, lock, Scalar::from(cb), Scalar::from(mb)][*i])).map(|i| format!("close-state slot {}", i)))
        .chain(if ms[2] != mc[2] { vec!["revocation lock differs between state and close state".to_string()] } else { vec![] })
        .collect();
    let sb = SignatureRequestProofBuilder::<5>::generate_proof_commitments(&mut w.rng, Message::new(ms), &ks.map(Some), &pk);
    let cbld = SignatureRequestProofBuilder::<5>::generate_proof_commitments(&mut w.rng, Message::new(mc), &kc.map(Some), &pk);
    let close_bf = cbld.message_blinding_factor();
    let assemble = |c: Challenge| -> Vec<u8> {
        let mut bytes = vec![];
        for x in kappa {
            bytes.extend_from_slice(&x.to_bytes());
        }
        bytes.extend(bincode::serialize(&sb.clone().generate_proof_response(c)).unwrap());
        bytes.extend(bincode::serialize(&cbld.clone().generate_proof_response(c)).unwrap());
        bytes
    };
    let (cbb, mbb) = (CustomerBalance::try_new(cb).unwrap(), MerchantBalance::try_new(mb).unwrap());
    let draft: EstablishProof = match bincode::deserialize(&assemble(ChallengeBuilder::new().with_bytes(b"draft").finish())) {
        Ok(p) => p,
        Err(e) => return json!({"reproduced": false, "detail": format!("draft does not decode: {}", e)}),
    };
    let _ = sha3::take_log();
    let _ = w.m.initialize(&mut w.rng, &id, cbb, mbb, draft, &ctx);
    let log = sha3::take_log();
    let raw = match log.iter().rev().find(|(t, _)| t.len() > 64) {
        Some((t, _)) => t.clone(),
        None => return json!({"reproduced": false, "detail": "no challenge transcript recorded"}),
    };
    let c = ChallengeBuilder::new().with_bytes(&raw).finish();
    let bytes = assemble(c);
    let proof: EstablishProof = bincode::deserialize(&bytes).unwrap();
    match w.m.initialize(&mut w.rng, &id, cbb, mbb, proof, &ctx) {
        None => json!({"reproduced": false, "detail": format!("the real merchant REJECTS the lying prover's proof (lies: {:?})", lies)}),
        Some((closing_sig, _)) => {
            let raw = bincode::serialize(&closing_sig).unwrap();
            let bs: BlindedSignature = bincode::deserialize(&raw).unwrap();
            let sig = bs.unblind(close_bf);
            let on_hidden = sig.verify(&pk, &Message::new(mc));
            json!({"reproduced": !lies.is_empty() && on_hidden,
                   "detail": format!("real initialize ACCEPTED for agreed ({},{}) a proof built by the public builders on hidden tuples with: {:?}; closing signature valid on the hidden close state: {}", cb, mb, lies, on_hidden),
                   "proof_bytes": hex(&bytes)})
        }
    }
}

/// C02: the lying prover against the real `allow_payment`: public builders on (honest witness + delta), image assembled
/// byte-wise, challenge recomputed from the transcript the real merchant hashes.
fn lie_pay(args: &Value) -> Value {
    let mut w = world(args["seed"].as_u64().unwrap_or(12));
    let ctx = Context::new(b"replay pay");
    let (cb, mb, amt) = (args["cb"].as_u64().unwrap_or(100), args["mb"].as_u64().unwrap_or(50), args["amount"].as_i64().unwrap_or(7));
    let (ncb, nmb) = ((cb as i128 - amt as i128) as i64, (mb as i128 + amt as i128) as i64);
    let kp = w.m.signing_keypair().clone();
    let pk = kp.public_key().clone();
    let rev = w.m.revocation_commitment_parameters().clone();
    let close = zkabacus_crypto::CLOSE_SCALAR;
    let a = if amt >= 0 { Scalar::from(amt as u64) } else { -Scalar::from(amt.unsigned_abs()) };
    let d = |n: &str| -> Scalar { args["delta"].get(n).and_then(|v| v.as_str()).map(scalar_from_dec).unwrap_or_else(Scalar::zero) };
    let mo = [Scalar::random(&mut w.rng), Scalar::random(&mut w.rng), Scalar::random(&mut w.rng), Scalar::from(cb), Scalar::from(mb)];
    let nonce: Nonce = match bincode::deserialize(&mo[1].to_bytes()) {
        Ok(n) => n,
        Err(e) => return json!({"reproduced": false, "detail": format!("nonce does not decode: {}", e)}),
    };
    let pay_token = Message::new(mo).sign(&mut w.rng, &kp);
    let rng_rc = w.rng.clone();
    let mk_rc = |r: &StdRng, m: &merchant::Config| {
        let mut r = r.clone();
        let c = RangeConstraintBuilder::generate_constraint_commitments(ncb, m.range_constraint_parameters(), &mut r).expect("in range");
        let mm = RangeConstraintBuilder::generate_constraint_commitments(nmb, m.range_constraint_parameters(), &mut r).expect("in range");
        (c, mm, r)
    };
    let (rcc, rcm, r_after) = mk_rc(&rng_rc, &w.m);
    let (kcb, kmb) = (rcc.commitment_scalar(), rcm.commitment_scalar());
    w.rng = r_after;
    let (new_nonce, new_lock) = (Scalar::random(&mut w.rng), Scalar::random(&mut w.rng));
    let mut ms = [mo[0], new_nonce, new_lock, Scalar::from(ncb as u64), Scalar::from(nmb as u64)];
    let mut mc = [mo[0], close, new_lock, ms[3], ms[4]];
    let mut ko = [Scalar::random(&mut w.rng), Scalar::random(&mut w.rng), Scalar::random(&mut w.rng), kcb, kmb];
    let mut ks = [ko[0], Scalar::random(&mut w.rng), Scalar::random(&mut w.rng), kcb, kmb];
    let mut kc = [ko[0], Scalar::random(&mut w.rng), ks[2], kcb, kmb];
    let mut r_msg = mo[2];
    let mut kr = ko[2];
    let mut kappa_n = ko[1];
    let mut kappa_c = kc[1];
    for i in 0..5 {
        ms[i] += d(&format!("w.ms{}", i));
        mc[i] += d(&format!("w.mc{}", i));
        ko[i] += d(&format!("w.ko{}", i));
        ks[i] += d(&format!("w.ks{}", i));
        kc[i] += d(&format!("w.kc{}", i));
    }
    r_msg += d("w.r");
    kr += d("w.kr");
    kappa_n += d("w.kappa_nonce");
    kappa_c += d("w.kappa_close");
    let mut lies: Vec<String> = vec![];
    for (what, bad) in [
        ("new state: channel id differs from the old state's", ms[0] != mo[0]),
        ("close state: channel id differs", mc[0] != mo[0]),
        ("close state: slot 1 is not the close tag", mc[1] != close),
        ("new state and close state carry different revocation locks", ms[2] != mc[2]),
        ("committed old revocation lock is not the old state's", r_msg != mo[2]),
        ("new customer balance is not old - amount", ms[3] != mo[3] - a),
        ("new merchant balance is not old + amount", ms[4] != mo[4] + a),
        ("close state customer balance differs from the new state's", mc[3] != ms[3]),
        ("close state merchant balance differs from the new state's", mc[4] != ms[4]),
    ] {
        if bad {
            lies.push(what.to_string());
        }
    }
    let rlb = CommitmentProofBuilder::<G1Projective, 1>::generate_proof_commitments(&mut w.rng, Message::new([r_msg]), &[Some(kr)], &rev);
    let otb = SignatureProofBuilder::<5>::generate_proof_commitments(&mut w.rng, Message::new(mo), pay_token, &ko.map(Some), &pk);
    let sb = SignatureRequestProofBuilder::<5>::generate_proof_commitments(&mut w.rng, Message::new(ms), &ks.map(Some), &pk);
    let cbl = SignatureRequestProofBuilder::<5>::generate_proof_commitments(&mut w.rng, Message::new(mc), &kc.map(Some), &pk);
    let close_bf = cbl.message_blinding_factor();
    drop((rcc, rcm));
    let assemble = |c: Challenge, m: &merchant::Config| -> Vec<u8> {
        let (rcc, rcm, _) = mk_rc(&rng_rc, m);
        let mut bytes = vec![];
        bytes.extend_from_slice(&kappa_n.to_bytes());
        bytes.extend_from_slice(&kappa_c.to_bytes());
        bytes.extend(bincode::serialize(&otb.clone().generate_proof_response(c)).unwrap());
        bytes.extend(bincode::serialize(&rlb.clone().generate_proof_response(c)).unwrap());
        bytes.extend(bincode::serialize(&sb.clone().generate_proof_response(c)).unwrap());
        bytes.extend(bincode::serialize(&cbl.clone().generate_proof_response(c)).unwrap());
        bytes.extend(bincode::serialize(&rcc.generate_constraint_response(c)).unwrap());
        bytes.extend(bincode::serialize(&rcm.generate_constraint_response(c)).unwrap());
        bytes
    };
    let draft: PayProof = match bincode::deserialize(&assemble(ChallengeBuilder::new().with_bytes(b"draft").finish(), &w.m)) {
        Ok(p) => p,
        Err(e) => return json!({"reproduced": false, "detail": format!("draft does not decode: {}", e)}),
    };
    let _ = sha3::take_log();
    let _ = w.m.allow_payment(&mut w.rng, amount(amt), &nonce, draft, &ctx);
    let log = sha3::take_log();
    let raw = match log.iter().rev().find(|(t, _)| t.len() > 64) {
        Some((t, _)) => t.clone(),
        None => return json!({"reproduced": false, "detail": "no challenge transcript recorded"}),
    };
    let c = ChallengeBuilder::new().with_bytes(&raw).finish();
    let bytes = assemble(c, &w.m);
    let proof: PayProof = bincode::deserialize(&bytes).unwrap();
    let res = w.m.allow_payment(&mut w.rng, amount(amt), &nonce, proof, &ctx);
    match res {
        None => json!({"reproduced": false, "detail": format!("the real merchant REJECTS the lying prover's pay proof (lies: {:?})", lies)}),
        Some((_unrevoked, closing_sig)) => {
            let raw = bincode::serialize(&closing_sig).unwrap();
            let bs: BlindedSignature = bincode::deserialize(&raw).unwrap();
            let sig = bs.unblind(close_bf);
            let on_hidden = sig.verify(&pk, &Message::new(mc));
            json!({"reproduced": !lies.is_empty() && on_hidden,
                   "detail": format!("real allow_payment ACCEPTED for old balances ({},{}) and amount {} a pay proof built by the public builders with: {:?}; closing signature valid on the hidden close state: {}", cb, mb, amt, lies, on_hidden),
                   "proof_len": bytes.len()})
        }
    }
}

#[derive(serde::Serialize, serde::Deserialize)]
struct VecOfScalars(#[serde(with = "zkchannels_crypto::SerializeElement")] Vec<Scalar>);

/// C16: an honest CommitmentProof<G1,1> image whose response-scalar sequence announces and carries one element too many.
/// The decode runs in THIS process: a panic is the reproduction (the driver observes exit status 101).
fn array_extra(_args: &Value) -> Value {
    let mut rng = StdRng::from_seed([3u8; 32]);
    let params = zkchannels_crypto::pedersen::PedersenParameters::<G1Projective, 1>::new(&mut rng);
    let b = CommitmentProofBuilder::<G1Projective, 1>::generate_proof_commitments(&mut rng, Message::new([Scalar::from(5u64)]), &[None], &params);
    let c = ChallengeBuilder::new().with(&b).finish();
    let proof = b.generate_proof_response(c);
    let l = layout::layout(&proof);
    let f = l.fields.iter().find(|f| f.kind == layout::Kind::LenPrefix).expect("length prefix").clone();
    let mut bytes = l.bytes.clone();
    bytes[f.off..f.off + 8].copy_from_slice(&2u64.to_le_bytes());
    bytes.extend_from_slice(&Scalar::from(7u64).to_bytes());
    eprintln!("decoding {} bytes: {}", bytes.len(), hex(&bytes));
    let r: Result<CommitmentProof<G1Projective, 1>, _> = bincode::deserialize(&bytes);
    json!({"reproduced": false, "detail": format!("decode returned {} without panicking", if r.is_ok() { "Ok" } else { "Err" })})
}

/// C16: the Vec<G> codec fed a length prefix of 2^40 and no elements: pre-allocation from the hint
fn vec_hint(_args: &Value) -> Value {
    let mut bytes = (1u64 << 40).to_le_bytes().to_vec();
    bytes.extend_from_slice(&[0u8; 8]);
    let r: Result<VecOfScalars, _> = bincode::deserialize(&bytes);
    json!({"reproduced": false, "detail": format!("decode returned {} without aborting", if r.is_ok() { "Ok" } else { "Err" })})
}

/// C15/C17: 8 bytes ff..ff as a balance
fn decode_balance(_args: &Value) -> Value {
    let r: Result<CustomerBalance, _> = bincode::deserialize(&[0xffu8; 8]);
    let r2: Result<MerchantBalance, _> = bincode::deserialize(&(1u64 << 63).to_le_bytes());
    match (r, r2) {
        (Ok(b), _) => json!({"reproduced": true, "detail": format!("CustomerBalance decoded from ff..ff = {}", b.into_inner())}),
        (_, Ok(b)) => json!({"reproduced": true, "detail": format!("MerchantBalance decoded 2^63 = {}", b.into_inner())}),
        _ => json!({"reproduced": false, "detail": "both out-of-range balances rejected at decode time"}),
    }
}

/// C17 / C06: exactness of the amount encoding on boundary amounts, through the feature-gated access point to the real
/// `PaymentAmount::to_scalar` (a panic in there - e.g. abs() on i64::MIN - aborts this process: also a reproduction)
fn amount_encoding(_args: &Value) -> Value {
    let vals = [i64::MIN, i64::MIN + 1, -(1i64 << 62), -7, -1, 0, 1, 7, 1i64 << 62, i64::MAX];
    let mut bad = vec![];
    for a in vals {
        let amt: PaymentAmount = match bincode::deserialize(&a.to_le_bytes()) {
            Ok(x) => x,
            Err(_) => continue,
        };
        let s = zkabacus_crypto::verif_hooks::amount_to_scalar(amt);
        let expect = if a >= 0 { Scalar::from(a as u64) } else { -Scalar::from(a.unsigned_abs()) };
        if s != expect {
            bad.push(a);
        }
    }
    json!({"reproduced": !bad.is_empty(), "detail": format!("amount encoding differs from the signed embedding for {:?}", bad)})
}

/// C17: allow_payment with the wire-reachable amount i64::MIN (panics in PaymentAmount::to_scalar with overflow checks on)
fn amount_min(_args: &Value) -> Value {
    let mut w = world(7);
    let id = cid(&mut w);
    let ctx = Context::new(b"replay");
    let (cb, mb) = (CustomerBalance::try_new(100).unwrap(), MerchantBalance::try_new(50).unwrap());
    let (req, eproof) = Requested::new(&mut w.rng, &w.c, id, mb, cb, &ctx);
    let (closing, vbs) = w.m.initialize(&mut w.rng, &id, cb, mb, eproof, &ctx).expect("establish");
    let inactive = req.complete(closing, &w.c).ok().expect("complete");
    let pt = w.m.activate(&mut w.rng, vbs);
    let ready = inactive.activate(pt, &w.c).ok().expect("activate");
    let (_s, start) = ready.start(&mut w.rng, amount(1), &ctx, &w.c).ok().expect("start");
    let amt: PaymentAmount = bincode::deserialize(&i64::MIN.to_le_bytes()).unwrap();
    let r = w.m.allow_payment(&mut w.rng, amt, &start.nonce, start.pay_proof, &ctx);
    json!({"reproduced": false, "detail": format!("allow_payment with amount i64::MIN returned {} without panicking", if r.is_some() { "Some" } else { "None" })})
}

fn main() {
    let args: Vec<String> = std::env::args().collect();
    let cmd = args.get(1).map(|s| s.as_str()).unwrap_or("");
    let a: Value = args.get(2).and_then(|s| serde_json::from_str(s).ok()).unwrap_or(json!({}));
    let out = match cmd {
        "unbound-atom" => unbound_atom(&a),
        "forge-establish" => forge_establish(&a),
        "lie-establish" => lie_establish(&a),
        "lie-pay" => lie_pay(&a),
        "selftest" => {
            let r = scenarios::run_all(a["seed"].as_u64().unwrap_or(1));
            let v: Vec<_> = r.iter().map(|(n, b)| json!([n, b])).collect();
            println!("{}", serde_json::to_string(&v).unwrap());
            return;
        }
        "array-extra" => array_extra(&a),
        "vec-hint" => vec_hint(&a),
        "decode-balance" => decode_balance(&a),
        "amount-min" => amount_min(&a),
        "amount-encoding" => amount_encoding(&a),
        _ => json!({"reproduced": false, "detail": format!("unknown replay command {}", cmd)}),
    };
    let _: Option<Nonce> = None;
    println!("{}", out);
}

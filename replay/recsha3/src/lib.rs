//! Genuine SHA3-256 with a transcript log.
pub use digest::{self, Digest};
use digest::{
    generic_array::{typenum::U32, GenericArray},
    FixedOutputDirty, Reset, Update,
};
use std::sync::Mutex;

static LOG: Mutex<Vec<(Vec<u8>, [u8; 32])>> = Mutex::new(Vec::new());

/// drain the (transcript, digest) log
pub fn take_log() -> Vec<(Vec<u8>, [u8; 32])> {
    std::mem::take(&mut *LOG.lock().unwrap())
}

pub fn sha3_256(data: &[u8]) -> [u8; 32] {
    const RATE: usize = 136;
    let mut st = [0u64; 25];
    let mut buf = data.to_vec();
    // pad10*1 with SHA3 domain bits 01
    buf.push(0x06);
    while buf.len() % RATE != 0 {
        buf.push(0);
    }
    let n = buf.len();
    buf[n - 1] |= 0x80;
    for block in buf.chunks(RATE) {
        for (i, lane) in block.chunks(8).enumerate() {
            let mut b = [0u8; 8];
            b.copy_from_slice(lane);
            st[i] ^= u64::from_le_bytes(b);
        }
        keccak::f1600(&mut st);
    }
    let mut out = [0u8; 32];
    for i in 0..4 {
        out[8 * i..8 * i + 8].copy_from_slice(&st[i].to_le_bytes());
    }
    out
}

#[derive(Clone, Default, Debug)]
pub struct Sha3_256 {
    buf: Vec<u8>,
}
impl Update for Sha3_256 {
    fn update(&mut self, data: impl AsRef<[u8]>) {
        self.buf.extend_from_slice(data.as_ref());
    }
}
impl Reset for Sha3_256 {
    fn reset(&mut self) {
        self.buf.clear();
    }
}
impl FixedOutputDirty for Sha3_256 {
    type OutputSize = U32;
    fn finalize_into_dirty(&mut self, out: &mut GenericArray<u8, U32>) {
        let buf = std::mem::take(&mut self.buf);
        let d = sha3_256(&buf);
        out.copy_from_slice(&d);
        LOG.lock().unwrap().push((buf, d));
    }
}

#[cfg(test)]
mod t {
    #[test]
    fn kat() {
        // NIST known answers
        let h = |d: &[u8]| super::sha3_256(d).iter().map(|b| format!("{:02x}", b)).collect::<String>();
        assert_eq!(h(b""), "a7ffc6f8bf1ed76651c14756a061d662f580ff4de43b49fa82d80a4b80f8434a");
        assert_eq!(h(b"abc"), "3a985da74fe225b2045c172d6bd390bd855f086e3e9d525b46bfe24511431532");
        let long = vec![0xa3u8; 200];
        assert_eq!(h(&long), "79f38adec5c20307a98ef76e8324afbfd46cfd81b22e3973c65fa1bd9de31787");
    }
}

//! Verification stand-in for `bls12_381` 0.4.0.
//!
//! Same type and trait surface as the real crate as far as `zkchannels-crypto` / `zkabacus-crypto`
//! use it, but values are symbolic terms over F_q:
//!  * `Scalar` = term (or concrete constant),
//!  * `G1*`, `G2*`, `Gt` = the element's discrete logarithm w.r.t. a fixed generator, i.e. again a
//!    term; group addition is `+`, scalar multiplication is `*`, the pairing is `*`.
//!    G1, G2, Gt are cyclic of prime order q and the pairing is bilinear and non-degenerate, so this
//!    is an isomorphic copy of the algebra, not an over-approximation.
//!  * comparisons call `symex::decide`, encodings are tokens, `random` draws a fresh variable.
pub mod fq;
pub mod symex;

use core::fmt;
use core::iter::Sum;
use core::ops::{Add, AddAssign, Mul, MulAssign, Neg, Sub, SubAssign};
use ff::{Field, FieldBits, PrimeField};
use group::{
    prime::{PrimeCurve, PrimeCurveAffine, PrimeGroup},
    Curve, Group, GroupEncoding, UncompressedEncoding,
};
use rand_core::RngCore;
use subtle::{Choice, ConditionallySelectable, ConstantTimeEq, CtOption};
use symex::*;

#[derive(Clone, Copy)]
pub struct Scalar {
    tag: u64, // 0 = concrete raw limbs (reduced lazily), 1 = term id in l[0] (epoch in l[1])
    l: [u64; 4],
}

impl fmt::Debug for Scalar {
    fn fmt(&self, f: &mut fmt::Formatter<'_>) -> fmt::Result {
        if self.tag == 0 && self.l[0] != MAGIC_U64 && !self.l.iter().any(|x| parse_window(&x.to_le_bytes()).is_some()) {
            write!(f, "Sc({})", fq::to_dec(&fq::reduce(&self.l)))
        } else {
            write!(f, "Sc(t{})", self.term())
        }
    }
}
impl fmt::Display for Scalar {
    fn fmt(&self, f: &mut fmt::Formatter<'_>) -> fmt::Result {
        fmt::Debug::fmt(self, f)
    }
}
impl Default for Scalar {
    fn default() -> Self {
        Scalar::zero()
    }
}

impl Scalar {
    // inherent arithmetic of the real crate (mirrors the operator impls)
    pub fn add(&self, rhs: &Scalar) -> Scalar {
        *self + *rhs
    }
    pub fn sub(&self, rhs: &Scalar) -> Scalar {
        *self - *rhs
    }
    pub fn mul(&self, rhs: &Scalar) -> Scalar {
        *self * *rhs
    }
    pub fn neg(&self) -> Scalar {
        -*self
    }
    pub fn pow(&self, by: &[u64; 4]) -> Scalar {
        Field::pow_vartime(self, by)
    }
    pub fn pow_vartime(&self, by: &[u64; 4]) -> Scalar {
        Field::pow_vartime(self, by)
    }
    pub fn invert(&self) -> CtOption<Scalar> {
        Field::invert(self)
    }

    pub const fn zero() -> Scalar {
        Scalar { tag: 0, l: [0; 4] }
    }
    pub const fn one() -> Scalar {
        Scalar { tag: 0, l: [1, 0, 0, 0] }
    }
    pub const fn from_raw(val: [u64; 4]) -> Self {
        Scalar { tag: 0, l: val }
    }
    pub fn from_term(t: Tid) -> Self {
        let epoch = with(|a| a.epoch);
        Scalar { tag: 1, l: [t as u64, epoch as u64, 0, 0] }
    }
    /// term id of this scalar in the current run's arena
    pub fn term(&self) -> Tid {
        if self.tag == 1 {
            let epoch = with(|a| a.epoch);
            assert_eq!(self.l[1], epoch as u64, "symex: scalar from another run leaked into this one");
            return self.l[0] as Tid;
        }
        if self.l[0] == MAGIC_U64 {
            // `from_raw` applied to the limbs of a token (a scalar's own encoding read back)
            let b = fq::to_le_bytes(&self.l);
            match untoken_lenient(&b) {
                Some((K_SCALAR, id, _)) => return id,
                Some((k, _, _)) => panic!("symex: from_raw on a non-scalar token (kind {})", k),
                // only the first word of a token (its bytes read as an integer): an ordinary constant
                None => return konst(fq::reduce(&self.l)),
            }
        }
        // `from_raw` applied to 64-bit words some of which are limbs of 256-bit blobs (a digest turned into a scalar):
        // value = sum_k word_k * 2^(64k)  (mod q)
        let limbs: Vec<Option<(u32, u8)>> = self.l.iter().map(|x| parse_window(&x.to_le_bytes())).collect();
        if limbs.iter().any(|x| x.is_some()) {
            if let (Some((v, 0)), Some((v1, 8)), Some((v2, 16)), Some((v3, 24))) = (limbs[0], limbs[1], limbs[2], limbs[3]) {
                if v == v1 && v == v2 && v == v3 {
                    return var_node(v);
                }
            }
            let mut acc = konst(fq::ZERO);
            let mut w = fq::ONE; // 2^(64k) mod q
            let two64 = fq::reduce(&[0, 1, 0, 0]);
            for k in 0..4 {
                let word = match limbs[k] {
                    Some((v, i)) => mk(Node::Limb(v, i)),
                    None => {
                        if suspicious_word(&self.l[k].to_le_bytes()) {
                            // bytes of a blob image cut in a way the model cannot follow (not an 8-byte window): the value
                            // below would be meaningless; the engine reports the run as inconclusive
                            with(|a| a.unmodelled_words += 1);
                        }
                        konst([self.l[k], 0, 0, 0])
                    }
                };
                let term = mk(Node::Mul(word, konst(w)));
                acc = mk(Node::Add(acc, term));
                w = fq::mul(&w, &two64);
            }
            return acc;
        }
        konst(self.l)
    }
    pub fn shadow(&self) -> fq::U256 {
        shadow_of(self.term())
    }
    pub fn to_bytes(&self) -> [u8; 32] {
        let t = self.term();
        if let Node::Const(c) = node_of(t) {
            // a constant is its own canonical little-endian encoding: code that inspects the bytes of a concrete scalar
            // (bit ladders, small-value fast paths) then runs on real data; `from_bytes` reads such bytes back
            let mut b = [0u8; 32];
            b.copy_from_slice(&fq::to_le_bytes(&c)[..32]);
            if untoken(&b).is_none() {
                return b;
            }
        }
        token::<32>(K_SCALAR, t)
    }
    pub fn from_bytes(bytes: &[u8; 32]) -> CtOption<Scalar> {
        match untoken(bytes) {
            Some((K_SCALAR, id, _)) => CtOption::new(Scalar::from_term(id), Choice::from(1)),
            Some((K_DIGEST, v, _)) => {
                // arbitrary 256-bit string read as a scalar encoding: canonical iff < q
                let ok = decide(F::BlobLtQ(v));
                CtOption::new(Scalar::from_term(var_node(v)), Choice::from(ok as u8))
            }
            Some(_) => CtOption::new(Scalar::zero(), Choice::from(0)),
            None => {
                let l = fq::from_le_bytes(bytes);
                let v = [l[0], l[1], l[2], l[3]];
                CtOption::new(Scalar::from_raw(v), Choice::from(fq::lt(&v, &fq::Q) as u8))
            }
        }
    }
    pub fn from_bytes_wide(bytes: &[u8; 64]) -> Scalar {
        let l = fq::from_le_bytes(bytes);
        Scalar::from_raw(fq::reduce(&l))
    }
    pub fn double(&self) -> Scalar {
        *self + *self
    }
    pub fn square(&self) -> Scalar {
        *self * *self
    }
    /// formula "self == o" (no decision recorded)
    pub fn eq_f(&self, o: &Scalar) -> F {
        eq_formula(self.term(), o.term())
    }
    fn eqz(&self, o: &Scalar) -> bool {
        decide(self.eq_f(o))
    }
    pub fn is_concrete(&self) -> bool {
        matches!(node_of(self.term()), Node::Const(_))
    }
}
impl From<u64> for Scalar {
    fn from(v: u64) -> Self {
        Scalar::from_raw([v, 0, 0, 0])
    }
}
impl PartialEq for Scalar {
    fn eq(&self, o: &Self) -> bool {
        self.eqz(o)
    }
}
impl Eq for Scalar {}
impl ConstantTimeEq for Scalar {
    fn ct_eq(&self, o: &Self) -> Choice {
        Choice::from(self.eqz(o) as u8)
    }
}
impl ConditionallySelectable for Scalar {
    fn conditional_select(a: &Self, b: &Self, c: Choice) -> Self {
        if bool::from(c) {
            *b
        } else {
            *a
        }
    }
}
macro_rules! binop {
    ($T:ident, $Tr:ident, $f:ident, $TrA:ident, $fa:ident, $node:ident) => {
        impl $Tr<$T> for $T {
            type Output = $T;
            fn $f(self, o: $T) -> $T {
                $T::from_term(mk(Node::$node(self.term(), o.term())))
            }
        }
        impl<'a> $Tr<&'a $T> for $T {
            type Output = $T;
            fn $f(self, o: &'a $T) -> $T {
                $Tr::$f(self, *o)
            }
        }
        impl<'a> $Tr<$T> for &'a $T {
            type Output = $T;
            fn $f(self, o: $T) -> $T {
                $Tr::$f(*self, o)
            }
        }
        impl<'a, 'b> $Tr<&'b $T> for &'a $T {
            type Output = $T;
            fn $f(self, o: &'b $T) -> $T {
                $Tr::$f(*self, *o)
            }
        }
        impl $TrA<$T> for $T {
            fn $fa(&mut self, o: $T) {
                *self = $Tr::$f(*self, o);
            }
        }
        impl<'a> $TrA<&'a $T> for $T {
            fn $fa(&mut self, o: &'a $T) {
                *self = $Tr::$f(*self, *o);
            }
        }
    };
}
binop!(Scalar, Add, add, AddAssign, add_assign, Add);
binop!(Scalar, Sub, sub, SubAssign, sub_assign, Sub);
binop!(Scalar, Mul, mul, MulAssign, mul_assign, Mul);
impl Neg for Scalar {
    type Output = Scalar;
    fn neg(self) -> Scalar {
        Scalar::from_term(mk(Node::Neg(self.term())))
    }
}
impl<'a> Neg for &'a Scalar {
    type Output = Scalar;
    fn neg(self) -> Scalar {
        -*self
    }
}
impl<T: core::borrow::Borrow<Scalar>> Sum<T> for Scalar {
    fn sum<I: Iterator<Item = T>>(iter: I) -> Self {
        iter.fold(Scalar::zero(), |a, x| a + *x.borrow())
    }
}
fn draw_from(rng: &mut impl RngCore, pfx: &str) -> Tid {
    let mut b = [0u8; 64];
    rng.fill_bytes(&mut b);
    draw(pfx, &b)
}
impl Field for Scalar {
    fn random(mut rng: impl RngCore) -> Self {
        Scalar::from_term(draw_from(&mut rng, "r"))
    }
    fn zero() -> Self {
        Scalar::zero()
    }
    fn one() -> Self {
        Scalar::one()
    }
    fn is_zero(&self) -> bool {
        self.eqz(&Scalar::zero())
    }
    fn square(&self) -> Self {
        Scalar::square(self)
    }
    fn double(&self) -> Self {
        Scalar::double(self)
    }
    fn invert(&self) -> CtOption<Self> {
        if Field::is_zero(self) {
            return CtOption::new(Scalar::zero(), Choice::from(0));
        }
        let inv_shadow = fq::inv(&self.shadow());
        let v = fresh_scalar("inv", inv_shadow);
        let p = mk(Node::Mul(self.term(), v));
        let one = konst(fq::ONE);
        assume(eq_formula(p, one), "definition of inverse");
        CtOption::new(Scalar::from_term(v), Choice::from(1))
    }
    fn sqrt(&self) -> CtOption<Self> {
        unimplemented!("stand-in bls12_381: Scalar::sqrt is not modelled")
    }
}
impl PrimeField for Scalar {
    type Repr = [u8; 32];
    type ReprBits = [u64; 4];
    fn from_repr(r: [u8; 32]) -> Option<Self> {
        Scalar::from_bytes(&r).into()
    }
    fn to_repr(&self) -> [u8; 32] {
        self.to_bytes()
    }
    fn to_le_bits(&self) -> FieldBits<[u64; 4]> {
        unimplemented!("stand-in bls12_381: bit decomposition is not modelled")
    }
    fn is_odd(&self) -> bool {
        unimplemented!("stand-in bls12_381: parity is not modelled")
    }
    fn char_le_bits() -> FieldBits<[u64; 4]> {
        unimplemented!()
    }
    const NUM_BITS: u32 = 255;
    const CAPACITY: u32 = 254;
    fn multiplicative_generator() -> Self {
        Scalar::from(7)
    }
    const S: u32 = 32;
    fn root_of_unity() -> Self {
        unimplemented!()
    }
}

// ---------- groups (discrete-log representation) ----------
macro_rules! group_impl {
    ($P:ident, $A:ident, $C:ident, $U:ident, $KIND:ident, $BAD:ident, $CL:expr, $UL:expr, $pfx:expr) => {
        #[derive(Clone, Copy, Debug, Default)]
        pub struct $P(pub Scalar);
        #[derive(Clone, Copy, Debug, Default)]
        pub struct $A(pub Scalar);
        impl $P {
            pub fn from_term(t: Tid) -> Self {
                $P(Scalar::from_term(t))
            }
            pub fn term(&self) -> Tid {
                self.0.term()
            }
            pub fn identity() -> Self {
                $P(Scalar::zero())
            }
            pub fn generator() -> Self {
                $P(Scalar::one())
            }
            pub fn is_identity(&self) -> Choice {
                Choice::from(Field::is_zero(&self.0) as u8)
            }
            pub fn double(&self) -> Self {
                $P(self.0 + self.0)
            }
            pub fn eq_f(&self, o: &Self) -> F {
                self.0.eq_f(&o.0)
            }
            // rest of the inherent API of the real crate (so that a change to the code under test that uses it still builds)
            pub fn add(&self, rhs: &$P) -> $P {
                $P(self.0 + rhs.0)
            }
            pub fn add_mixed(&self, rhs: &$A) -> $P {
                $P(self.0 + rhs.0)
            }
            pub fn batch_normalize(p: &[Self], q: &mut [$A]) {
                assert_eq!(p.len(), q.len());
                for (a, b) in p.iter().zip(q.iter_mut()) {
                    *b = $A(a.0);
                }
            }
            pub fn is_on_curve(&self) -> Choice {
                Choice::from(1)
            }
        }
        impl $A {
            pub fn from_term(t: Tid) -> Self {
                $A(Scalar::from_term(t))
            }
            pub fn term(&self) -> Tid {
                self.0.term()
            }
            pub fn identity() -> Self {
                $A(Scalar::zero())
            }
            pub fn generator() -> Self {
                $A(Scalar::one())
            }
            pub fn is_identity(&self) -> Choice {
                Choice::from(Field::is_zero(&self.0) as u8)
            }
            pub fn eq_f(&self, o: &Self) -> F {
                self.0.eq_f(&o.0)
            }
            pub fn to_compressed(&self) -> [u8; $CL] {
                token::<$CL>($KIND, self.term())
            }
            pub fn to_uncompressed(&self) -> [u8; $UL] {
                token::<$UL>($KIND, self.term())
            }
            pub fn from_compressed(b: &[u8; $CL]) -> CtOption<Self> {
                match untoken(b) {
                    Some((k, id, _)) if k == $KIND => CtOption::new($A::from_term(id), Choice::from(1)),
                    _ => CtOption::new($A::identity(), Choice::from(0)),
                }
            }
            /// accepts tokens that stand for off-curve / out-of-subgroup encodings: a check that sees
            /// such a token decode successfully knows the code used the unchecked API
            pub fn from_compressed_unchecked(b: &[u8; $CL]) -> CtOption<Self> {
                match untoken(b) {
                    Some((k, id, _)) if k == $KIND => CtOption::new($A::from_term(id), Choice::from(1)),
                    Some((k, id, _)) if k == $BAD => {
                        // a distinct element (fresh variable with the same shadow value): the honest term stays untainted
                        let t = fresh_scalar("offgroup", shadow_of(id));
                        mark_offgroup(t);
                        CtOption::new($A::from_term(t), Choice::from(1))
                    }
                    _ => CtOption::new($A::identity(), Choice::from(0)),
                }
            }
            /// an element obtained from an invalid-encoding token through an unchecked decoder is on the curve (the
            /// unchecked decoders of the real crate only decompress) but outside the prime-order group
            pub fn is_on_curve(&self) -> Choice {
                Choice::from(1)
            }
            pub fn is_torsion_free(&self) -> Choice {
                Choice::from((!is_offgroup(self.term())) as u8)
            }
            pub fn from_uncompressed(b: &[u8; $UL]) -> CtOption<Self> {
                match untoken(b) {
                    Some((k, id, _)) if k == $KIND => CtOption::new($A::from_term(id), Choice::from(1)),
                    _ => CtOption::new($A::identity(), Choice::from(0)),
                }
            }
            pub fn from_uncompressed_unchecked(b: &[u8; $UL]) -> CtOption<Self> {
                match untoken(b) {
                    Some((k, id, _)) if k == $BAD => {
                        // a distinct element (fresh variable with the same shadow value): the honest term stays untainted
                        let t = fresh_scalar("offgroup", shadow_of(id));
                        mark_offgroup(t);
                        CtOption::new($A::from_term(t), Choice::from(1))
                    }
                    Some((k, id, _)) if k == $KIND => CtOption::new($A::from_term(id), Choice::from(1)),
                    _ => CtOption::new($A::identity(), Choice::from(0)),
                }
            }
        }
        impl PartialEq for $P {
            fn eq(&self, o: &Self) -> bool {
                self.0 == o.0
            }
        }
        impl Eq for $P {}
        impl PartialEq for $A {
            fn eq(&self, o: &Self) -> bool {
                self.0 == o.0
            }
        }
        impl Eq for $A {}
        impl ConstantTimeEq for $P {
            fn ct_eq(&self, o: &Self) -> Choice {
                self.0.ct_eq(&o.0)
            }
        }
        impl ConstantTimeEq for $A {
            fn ct_eq(&self, o: &Self) -> Choice {
                self.0.ct_eq(&o.0)
            }
        }
        impl From<$P> for $A {
            fn from(p: $P) -> $A {
                $A(p.0)
            }
        }
        impl<'a> From<&'a $P> for $A {
            fn from(p: &'a $P) -> $A {
                $A(p.0)
            }
        }
        impl From<$A> for $P {
            fn from(p: $A) -> $P {
                $P(p.0)
            }
        }
        impl<'a> From<&'a $A> for $P {
            fn from(p: &'a $A) -> $P {
                $P(p.0)
            }
        }
        impl ConditionallySelectable for $P {
            fn conditional_select(a: &Self, b: &Self, c: Choice) -> Self {
                if bool::from(c) {
                    *b
                } else {
                    *a
                }
            }
        }
        impl ConditionallySelectable for $A {
            fn conditional_select(a: &Self, b: &Self, c: Choice) -> Self {
                if bool::from(c) {
                    *b
                } else {
                    *a
                }
            }
        }
        impl Neg for $P {
            type Output = $P;
            fn neg(self) -> $P {
                $P(-self.0)
            }
        }
        impl<'a> Neg for &'a $P {
            type Output = $P;
            fn neg(self) -> $P {
                $P(-self.0)
            }
        }
        impl Neg for $A {
            type Output = $A;
            fn neg(self) -> $A {
                $A(-self.0)
            }
        }
        impl<'a> Neg for &'a $A {
            type Output = $A;
            fn neg(self) -> $A {
                $A(-self.0)
            }
        }
        group_impl!(@add $P, $P, $P);
        group_impl!(@add $P, $A, $P);
        group_impl!(@add $A, $P, $P);
        impl AddAssign<$P> for $P {
            fn add_assign(&mut self, o: $P) {
                self.0 = self.0 + o.0;
            }
        }
        impl<'a> AddAssign<&'a $P> for $P {
            fn add_assign(&mut self, o: &'a $P) {
                self.0 = self.0 + o.0;
            }
        }
        impl SubAssign<$P> for $P {
            fn sub_assign(&mut self, o: $P) {
                self.0 = self.0 - o.0;
            }
        }
        impl<'a> SubAssign<&'a $P> for $P {
            fn sub_assign(&mut self, o: &'a $P) {
                self.0 = self.0 - o.0;
            }
        }
        impl AddAssign<$A> for $P {
            fn add_assign(&mut self, o: $A) {
                self.0 = self.0 + o.0;
            }
        }
        impl<'a> AddAssign<&'a $A> for $P {
            fn add_assign(&mut self, o: &'a $A) {
                self.0 = self.0 + o.0;
            }
        }
        impl SubAssign<$A> for $P {
            fn sub_assign(&mut self, o: $A) {
                self.0 = self.0 - o.0;
            }
        }
        impl<'a> SubAssign<&'a $A> for $P {
            fn sub_assign(&mut self, o: &'a $A) {
                self.0 = self.0 - o.0;
            }
        }
        group_impl!(@mul $P, $P);
        group_impl!(@mul $A, $P);
        impl MulAssign<Scalar> for $P {
            fn mul_assign(&mut self, s: Scalar) {
                self.0 = self.0 * s;
            }
        }
        impl<'a> MulAssign<&'a Scalar> for $P {
            fn mul_assign(&mut self, s: &'a Scalar) {
                self.0 = self.0 * *s;
            }
        }
        impl<T: core::borrow::Borrow<$P>> Sum<T> for $P {
            fn sum<I: Iterator<Item = T>>(iter: I) -> Self {
                iter.fold($P::identity(), |a, x| a + *x.borrow())
            }
        }
        impl Group for $P {
            type Scalar = Scalar;
            fn random(mut rng: impl RngCore) -> Self {
                $P::from_term(draw_from(&mut rng, $pfx))
            }
            fn identity() -> Self {
                $P::identity()
            }
            fn generator() -> Self {
                $P::generator()
            }
            fn is_identity(&self) -> Choice {
                $P::is_identity(self)
            }
            fn double(&self) -> Self {
                $P::double(self)
            }
        }
        #[derive(Clone, Copy)]
        pub struct $C(pub [u8; $CL]);
        impl Default for $C {
            fn default() -> Self {
                $C([0; $CL])
            }
        }
        impl AsRef<[u8]> for $C {
            fn as_ref(&self) -> &[u8] {
                &self.0
            }
        }
        impl AsMut<[u8]> for $C {
            fn as_mut(&mut self) -> &mut [u8] {
                &mut self.0
            }
        }
        #[derive(Clone, Copy)]
        pub struct $U(pub [u8; $UL]);
        impl Default for $U {
            fn default() -> Self {
                $U([0; $UL])
            }
        }
        impl AsRef<[u8]> for $U {
            fn as_ref(&self) -> &[u8] {
                &self.0
            }
        }
        impl AsMut<[u8]> for $U {
            fn as_mut(&mut self) -> &mut [u8] {
                &mut self.0
            }
        }
        impl GroupEncoding for $P {
            type Repr = $C;
            fn from_bytes(b: &$C) -> CtOption<Self> {
                $A::from_compressed(&b.0).map(Into::into)
            }
            fn from_bytes_unchecked(b: &$C) -> CtOption<Self> {
                $A::from_compressed_unchecked(&b.0).map(Into::into)
            }
            fn to_bytes(&self) -> $C {
                $C($A::from(self).to_compressed())
            }
        }
        impl GroupEncoding for $A {
            type Repr = $C;
            fn from_bytes(b: &$C) -> CtOption<Self> {
                $A::from_compressed(&b.0)
            }
            fn from_bytes_unchecked(b: &$C) -> CtOption<Self> {
                $A::from_compressed_unchecked(&b.0)
            }
            fn to_bytes(&self) -> $C {
                $C(self.to_compressed())
            }
        }
        impl UncompressedEncoding for $A {
            type Uncompressed = $U;
            fn from_uncompressed(b: &$U) -> CtOption<Self> {
                $A::from_uncompressed(&b.0)
            }
            fn from_uncompressed_unchecked(b: &$U) -> CtOption<Self> {
                $A::from_uncompressed_unchecked(&b.0)
            }
            fn to_uncompressed(&self) -> $U {
                $U($A::to_uncompressed(self))
            }
        }
        impl PrimeGroup for $P {}
        impl Curve for $P {
            type AffineRepr = $A;
            fn to_affine(&self) -> $A {
                self.into()
            }
        }
        impl PrimeCurve for $P {
            type Affine = $A;
        }
        impl PrimeCurveAffine for $A {
            type Scalar = Scalar;
            type Curve = $P;
            fn identity() -> Self {
                $A::identity()
            }
            fn generator() -> Self {
                $A::generator()
            }
            fn is_identity(&self) -> Choice {
                $A::is_identity(self)
            }
            fn to_curve(&self) -> $P {
                self.into()
            }
        }
    };
    (@add $L:ident, $R:ident, $O:ident) => {
        impl Add<$R> for $L {
            type Output = $O;
            fn add(self, o: $R) -> $O {
                $O(self.0 + o.0)
            }
        }
        impl<'a> Add<&'a $R> for $L {
            type Output = $O;
            fn add(self, o: &'a $R) -> $O {
                $O(self.0 + o.0)
            }
        }
        impl<'a> Add<$R> for &'a $L {
            type Output = $O;
            fn add(self, o: $R) -> $O {
                $O(self.0 + o.0)
            }
        }
        impl<'a, 'b> Add<&'b $R> for &'a $L {
            type Output = $O;
            fn add(self, o: &'b $R) -> $O {
                $O(self.0 + o.0)
            }
        }
        impl Sub<$R> for $L {
            type Output = $O;
            fn sub(self, o: $R) -> $O {
                $O(self.0 - o.0)
            }
        }
        impl<'a> Sub<&'a $R> for $L {
            type Output = $O;
            fn sub(self, o: &'a $R) -> $O {
                $O(self.0 - o.0)
            }
        }
        impl<'a> Sub<$R> for &'a $L {
            type Output = $O;
            fn sub(self, o: $R) -> $O {
                $O(self.0 - o.0)
            }
        }
        impl<'a, 'b> Sub<&'b $R> for &'a $L {
            type Output = $O;
            fn sub(self, o: &'b $R) -> $O {
                $O(self.0 - o.0)
            }
        }
    };
    (@mul $L:ident, $O:ident) => {
        impl Mul<Scalar> for $L {
            type Output = $O;
            fn mul(self, s: Scalar) -> $O {
                $O(self.0 * s)
            }
        }
        impl<'a> Mul<&'a Scalar> for $L {
            type Output = $O;
            fn mul(self, s: &'a Scalar) -> $O {
                $O(self.0 * *s)
            }
        }
        impl<'a> Mul<Scalar> for &'a $L {
            type Output = $O;
            fn mul(self, s: Scalar) -> $O {
                $O(self.0 * s)
            }
        }
        impl<'a, 'b> Mul<&'b Scalar> for &'a $L {
            type Output = $O;
            fn mul(self, s: &'b Scalar) -> $O {
                $O(self.0 * *s)
            }
        }
    };
}
group_impl!(G1Projective, G1Affine, G1Compressed, G1Uncompressed, K_G1, K_BAD_G1, 48, 96, "g1r");
group_impl!(G2Projective, G2Affine, G2Compressed, G2Uncompressed, K_G2, K_BAD_G2, 96, 192, "g2r");

// ---------- pairing ----------
#[derive(Clone, Copy, Debug, Default)]
pub struct Gt(pub Scalar);
impl Gt {
    pub fn identity() -> Gt {
        Gt(Scalar::zero())
    }
    pub fn eq_f(&self, o: &Self) -> F {
        self.0.eq_f(&o.0)
    }
}
impl PartialEq for Gt {
    fn eq(&self, o: &Self) -> bool {
        self.0 == o.0
    }
}
impl Eq for Gt {}
impl Add for Gt {
    type Output = Gt;
    fn add(self, o: Gt) -> Gt {
        Gt(self.0 + o.0)
    }
}
impl<'a> Add<&'a Gt> for Gt {
    type Output = Gt;
    fn add(self, o: &'a Gt) -> Gt {
        Gt(self.0 + o.0)
    }
}
impl Sub for Gt {
    type Output = Gt;
    fn sub(self, o: Gt) -> Gt {
        Gt(self.0 - o.0)
    }
}
impl Neg for Gt {
    type Output = Gt;
    fn neg(self) -> Gt {
        Gt(-self.0)
    }
}
impl Mul<Scalar> for Gt {
    type Output = Gt;
    fn mul(self, s: Scalar) -> Gt {
        Gt(self.0 * s)
    }
}
#[derive(Clone, Copy, Debug)]
pub struct G2Prepared(pub Scalar);
impl From<G2Affine> for G2Prepared {
    fn from(a: G2Affine) -> Self {
        G2Prepared(a.0)
    }
}
#[derive(Clone, Copy, Debug)]
pub struct MillerLoopResult(pub Scalar);
impl MillerLoopResult {
    pub fn final_exponentiation(&self) -> Gt {
        Gt(self.0)
    }
}
pub fn multi_miller_loop(terms: &[(&G1Affine, &G2Prepared)]) -> MillerLoopResult {
    let mut acc = Scalar::zero();
    for (a, b) in terms {
        acc = acc + a.0 * b.0;
    }
    MillerLoopResult(acc)
}
pub fn pairing(p: &G1Affine, q: &G2Affine) -> Gt {
    Gt(p.0 * q.0)
}

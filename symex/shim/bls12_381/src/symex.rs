//! Symbolic-execution runtime behind the stand-in `bls12_381` / `sha3` crates.
//!
//! Every scalar / group element is a node of a hash-consed term DAG over F_q; every node carries a
//! concrete *shadow value* (so the repo's code runs natively and deterministically), every
//! comparison that reaches Rust control flow is recorded as a *decision* (formula, outcome), every
//! hash call is recorded as a transcript with a fresh digest variable.  The harness reads the
//! recorded path condition afterwards and hands obligations to an SMT solver.
//!
//! Nothing here decides a property: the arena only records.
use crate::fq::{self, U256};
use std::cell::RefCell;
use std::collections::HashMap;

pub type Tid = u32;

pub const MAGIC: [u8; 8] = [0xFF, 0x4D, 0x59, 0x53, 0x4B, 0x5A, 0xFF, 0xFF];
pub const MAGIC_U64: u64 = u64::from_le_bytes(MAGIC);
pub const TOKEN_LEN: usize = 19;

pub const K_SCALAR: u8 = 1;
pub const K_G1: u8 = 2;
pub const K_G2: u8 = 3;
/// 256-bit blob variable (hash digest, or an arbitrary 32-byte string); id = var index
pub const K_DIGEST: u8 = 4;
/// one 8-byte limb of a blob variable inside a transcript; id = var*4 + limb index
pub const K_LIMB: u8 = 5;
/// stand for byte strings that are *not* a canonical / on-curve / in-subgroup encoding
pub const K_BAD_SCALAR: u8 = 0x11;
pub const K_BAD_G1: u8 = 0x12;
pub const K_BAD_G2: u8 = 0x13;

#[derive(Clone, Debug, PartialEq, Eq, Hash)]
pub enum Node {
    Const(U256),
    Var(u32),
    Add(Tid, Tid),
    Sub(Tid, Tid),
    Mul(Tid, Tid),
    Neg(Tid),
    /// 64-bit window of a 256-bit blob variable starting at BYTE offset `off` (little-endian, 0..=24):
    /// (V div 2^(8 off)) mod 2^64.  Offsets 0/8/16/24 are the four aligned limbs.
    Limb(u32, u8),
}

#[derive(Clone, Copy, Debug, PartialEq, Eq)]
pub enum VarKind {
    /// element of [0, q)
    Scalar,
    /// element of [0, 2^256); used mod q when it occurs inside a term
    Blob,
}

#[derive(Clone, Debug, PartialEq, Eq)]
pub enum Origin {
    /// n-th random draw of the run (scalar or group element)
    Draw(usize),
    /// digest of the n-th hash call of the run
    Digest(usize),
    /// introduced by the harness
    Named,
}

#[derive(Clone, Debug)]
pub struct VarInfo {
    pub name: String,
    pub kind: VarKind,
    /// full concrete value (for blobs possibly >= q)
    pub shadow: U256,
    pub node: Tid,
    pub origin: Origin,
}

/// Quantifier-free formulas over terms; the only atoms are "term == 0 (mod q)" and facts about blobs.
#[derive(Clone, Debug, PartialEq, Eq, Hash)]
pub enum F {
    True,
    False,
    /// term ≡ 0 (mod q)
    EqZ(Tid),
    /// blob variable < q  (its bytes are a canonical scalar encoding)
    BlobLtQ(u32),
    /// exact equality of two blob variables
    BlobEq(u32, u32),
    /// blob variable equals the canonical value of a term: B = (t mod q)
    BlobIsTerm(u32, Tid),
    /// blob variable has this exact 256-bit value
    BlobConst(u32, U256),
    Not(Box<F>),
    And(Vec<F>),
    Or(Vec<F>),
    Iff(Box<F>, Box<F>),
    Imp(Box<F>, Box<F>),
}

impl F {
    pub fn not(self) -> F {
        match self {
            F::True => F::False,
            F::False => F::True,
            F::Not(x) => *x,
            x => F::Not(Box::new(x)),
        }
    }
    pub fn and(v: Vec<F>) -> F {
        let mut out = vec![];
        for x in v {
            match x {
                F::True => {}
                F::False => return F::False,
                F::And(xs) => out.extend(xs),
                x => out.push(x),
            }
        }
        match out.len() {
            0 => F::True,
            1 => out.pop().unwrap(),
            _ => F::And(out),
        }
    }
    pub fn or(v: Vec<F>) -> F {
        let mut out = vec![];
        for x in v {
            match x {
                F::False => {}
                F::True => return F::True,
                F::Or(xs) => out.extend(xs),
                x => out.push(x),
            }
        }
        match out.len() {
            0 => F::False,
            1 => out.pop().unwrap(),
            _ => F::Or(out),
        }
    }
    pub fn iff(a: F, b: F) -> F {
        F::Iff(Box::new(a), Box::new(b))
    }
    pub fn imp(a: F, b: F) -> F {
        F::Imp(Box::new(a), Box::new(b))
    }
    pub fn with_outcome(self, outcome: bool) -> F {
        if outcome {
            self
        } else {
            self.not()
        }
    }
}

#[derive(Clone, Debug)]
pub struct Decision {
    pub cond: F,
    pub outcome: bool,
    /// what the shadow values say
    pub shadow: bool,
    /// outcome was dictated by the exploration prefix
    pub forced: bool,
    pub label: u32,
}

#[derive(Clone, Debug, PartialEq, Eq)]
pub enum Item {
    Lit(Vec<u8>),
    Tok { kind: u8, id: u32, width: usize },
}

#[derive(Clone, Debug)]
pub struct HashRec {
    /// random-oracle instance the call was answered by (see `new_oracle`)
    pub oracle: u32,
    pub items: Vec<Item>,
    /// the bytes as fed to the hash (tokens included)
    pub raw: Vec<u8>,
    pub raw_len: usize,
    pub digest_var: u32,
    pub label: u32,
}

#[derive(Clone, Copy, Debug, PartialEq, Eq)]
pub enum DrawMode {
    /// a draw may be any value (retry loops fork)
    Free,
    /// draws are assumed non-zero (recorded as axioms)
    NonDegenerate,
}

pub struct Arena {
    pub epoch: u32,
    pub nodes: Vec<Node>,
    pub shadow: Vec<U256>,
    intern: HashMap<Node, Tid>,
    pub vars: Vec<VarInfo>,
    pub decisions: Vec<Decision>,
    pub prefix: Vec<bool>,
    pub axioms: Vec<(F, String)>,
    pub hashes: Vec<HashRec>,
    pub labels: Vec<String>,
    pub cur_label: u32,
    pub mode: DrawMode,
    pub draws: Vec<u32>,
    pub max_decisions: usize,
    pub misaligned_pairs: usize,
    /// terms that entered through an unchecked element decoder from an invalid-encoding token
    pub offgroup: std::collections::HashSet<Tid>,
    /// opt-in (`dedupe`): outcomes of the comparisons decided since it was switched on; an identical comparison met again
    /// takes the same outcome instead of following the shadow values (x || !x style re-tests after a forced flip)
    pub decided: Option<HashMap<F, bool>>,
    /// 64-bit words handed to `Scalar::from_raw` that contain pieces of blob tokens but are not an 8-byte window of one blob
    pub unmodelled_words: usize,
    pub seed: u64,
    /// when set, every decision takes this outcome (still recorded, marked forced)
    pub force: Option<bool>,
    /// outcomes to impose on the next decisions, in order (used to replay one call's path on another input)
    pub force_queue: std::collections::VecDeque<bool>,
    /// current random-oracle instance: ideal-hash axioms relate only calls answered by the same instance
    pub oracle: u32,
    /// draws already made, keyed by the 64 bytes consumed: the same bytes are the same draw (same variable)
    pub draw_by_bytes: HashMap<Vec<u8>, u32>,
}

impl Arena {
    fn new() -> Self {
        Arena {
            epoch: 0,
            nodes: vec![],
            shadow: vec![],
            intern: HashMap::new(),
            vars: vec![],
            decisions: vec![],
            prefix: vec![],
            axioms: vec![],
            hashes: vec![],
            labels: vec!["".to_string()],
            cur_label: 0,
            mode: DrawMode::NonDegenerate,
            draws: vec![],
            max_decisions: 20000,
            misaligned_pairs: 0,
            offgroup: Default::default(),
            decided: None,
            unmodelled_words: 0,
            seed: 0,
            force: None,
            force_queue: Default::default(),
            oracle: 0,
            draw_by_bytes: HashMap::new(),
        }
    }
    pub fn mk(&mut self, n: Node) -> Tid {
        // light simplification (sound ring identities only)
        let n = match n {
            Node::Add(a, b) => match (&self.nodes[a as usize], &self.nodes[b as usize]) {
                (Node::Const(x), Node::Const(y)) => Node::Const(fq::add(x, y)),
                (Node::Const(x), _) if *x == fq::ZERO => return b,
                (_, Node::Const(y)) if *y == fq::ZERO => return a,
                _ => Node::Add(a, b),
            },
            Node::Sub(a, b) => match (&self.nodes[a as usize], &self.nodes[b as usize]) {
                (Node::Const(x), Node::Const(y)) => Node::Const(fq::sub(x, y)),
                (_, Node::Const(y)) if *y == fq::ZERO => return a,
                _ if a == b => Node::Const(fq::ZERO),
                _ => Node::Sub(a, b),
            },
            Node::Mul(a, b) => match (&self.nodes[a as usize], &self.nodes[b as usize]) {
                (Node::Const(x), Node::Const(y)) => Node::Const(fq::mul(x, y)),
                (Node::Const(x), _) if *x == fq::ZERO => return a,
                (_, Node::Const(y)) if *y == fq::ZERO => return b,
                (Node::Const(x), _) if *x == fq::ONE => return b,
                (_, Node::Const(y)) if *y == fq::ONE => return a,
                _ => Node::Mul(a, b),
            },
            Node::Neg(a) => match &self.nodes[a as usize] {
                Node::Const(x) => Node::Const(fq::neg(x)),
                Node::Neg(x) => return *x,
                _ => Node::Neg(a),
            },
            n => n,
        };
        if let Some(&t) = self.intern.get(&n) {
            return t;
        }
        let sh = match &n {
            Node::Const(c) => *c,
            Node::Var(v) => fq::reduce(&self.vars[*v as usize].shadow),
            Node::Limb(v, off) => [window64(&self.vars[*v as usize].shadow, *off), 0, 0, 0],
            Node::Add(a, b) => fq::add(&self.shadow[*a as usize], &self.shadow[*b as usize]),
            Node::Sub(a, b) => fq::sub(&self.shadow[*a as usize], &self.shadow[*b as usize]),
            Node::Mul(a, b) => fq::mul(&self.shadow[*a as usize], &self.shadow[*b as usize]),
            Node::Neg(a) => fq::neg(&self.shadow[*a as usize]),
        };
        let t = self.nodes.len() as Tid;
        self.nodes.push(n.clone());
        self.shadow.push(sh);
        self.intern.insert(n, t);
        t
    }
    pub fn new_var(&mut self, name: String, kind: VarKind, shadow: U256, origin: Origin) -> u32 {
        let mut name = name;
        if self.vars.iter().any(|v| v.name == name) {
            name = format!("{}__{}", name, self.vars.len());
        }
        let vi = self.vars.len() as u32;
        let shadow = match kind {
            VarKind::Scalar => fq::reduce(&shadow),
            VarKind::Blob => shadow,
        };
        self.vars.push(VarInfo { name, kind, shadow, node: 0, origin });
        let t = self.mk(Node::Var(vi));
        self.vars[vi as usize].node = t;
        vi
    }
    pub fn eval(&self, f: &F) -> bool {
        match f {
            F::True => true,
            F::False => false,
            F::EqZ(t) => self.shadow[*t as usize] == fq::ZERO,
            F::BlobLtQ(v) => fq::lt(&self.vars[*v as usize].shadow, &fq::Q),
            F::BlobEq(a, b) => self.vars[*a as usize].shadow == self.vars[*b as usize].shadow,
            F::BlobIsTerm(v, t) => self.vars[*v as usize].shadow == self.shadow[*t as usize],
            F::BlobConst(v, c) => self.vars[*v as usize].shadow == *c,
            F::Not(x) => !self.eval(x),
            F::And(xs) => xs.iter().all(|x| self.eval(x)),
            F::Or(xs) => xs.iter().any(|x| self.eval(x)),
            F::Iff(a, b) => self.eval(a) == self.eval(b),
            F::Imp(a, b) => !self.eval(a) || self.eval(b),
        }
    }
}

thread_local! {
    pub static ARENA: RefCell<Arena> = RefCell::new(Arena::new());
}

thread_local! {
    /// true while the runtime itself is working (its own bookkeeping allocations are not the code under test's)
    static IN_RUNTIME: std::cell::Cell<bool> = const { std::cell::Cell::new(false) };
}
pub fn in_runtime() -> bool {
    IN_RUNTIME.try_with(|f| f.get()).unwrap_or(true)
}
pub fn with<R>(f: impl FnOnce(&mut Arena) -> R) -> R {
    let prev = IN_RUNTIME.with(|x| x.replace(true));
    let r = ARENA.with(|a| f(&mut a.borrow_mut()));
    IN_RUNTIME.with(|x| x.set(prev));
    r
}

/// Start a fresh run: clears terms, decisions, hashes; installs the decision prefix.
pub fn begin(prefix: Vec<bool>, mode: DrawMode, seed: u64) {
    with(|a| {
        let epoch = a.epoch.wrapping_add(1);
        *a = Arena::new();
        a.epoch = epoch;
        a.prefix = prefix;
        a.mode = mode;
        a.seed = seed;
    })
}

pub fn set_label(l: &str) {
    with(|a| {
        let id = match a.labels.iter().position(|x| x == l) {
            Some(i) => i,
            None => {
                a.labels.push(l.to_string());
                a.labels.len() - 1
            }
        };
        a.cur_label = id as u32;
    })
}
pub fn label_name(id: u32) -> String {
    with(|a| a.labels[id as usize].clone())
}
pub fn set_force(f: Option<bool>) {
    with(|a| a.force = f)
}
/// Switch to a fresh random-oracle instance ("rewinding" in a two-transcript argument): hash calls made
/// from now on are unrelated to earlier calls, even on identical input.  Digests obtained earlier stay
/// ordinary values.
pub fn new_oracle() {
    with(|a| a.oracle += 1)
}
/// impose these outcomes on the next decisions
pub fn force_seq(seq: Vec<bool>) {
    with(|a| a.force_queue = seq.into())
}
pub fn force_pending() -> usize {
    with(|a| a.force_queue.len())
}
pub fn set_mode(m: DrawMode) {
    with(|a| a.mode = m)
}
pub fn set_max_decisions(n: usize) {
    with(|a| a.max_decisions = n)
}

pub fn mk(n: Node) -> Tid {
    with(|a| a.mk(n))
}
pub fn konst(v: U256) -> Tid {
    mk(Node::Const(fq::reduce(&v)))
}
pub fn shadow_of(t: Tid) -> U256 {
    with(|a| a.shadow[t as usize])
}
pub fn node_of(t: Tid) -> Node {
    with(|a| a.nodes[t as usize].clone())
}
pub fn eval(f: &F) -> bool {
    with(|a| a.eval(f))
}
pub fn assume(f: F, why: &str) {
    with(|a| {
        debug_assert!(a.eval(&f), "assumption contradicts shadow values: {}", why);
        a.axioms.push((f, why.to_string()))
    })
}

/// fresh scalar variable with a given shadow value
pub fn fresh_scalar(name: &str, shadow: U256) -> Tid {
    with(|a| {
        let v = a.new_var(name.to_string(), VarKind::Scalar, shadow, Origin::Named);
        a.vars[v as usize].node
    })
}
/// fresh 256-bit blob variable; returns the var index
pub fn fresh_blob(name: &str, shadow: U256) -> u32 {
    with(|a| a.new_var(name.to_string(), VarKind::Blob, shadow, Origin::Named))
}
pub fn var_node(v: u32) -> Tid {
    with(|a| a.vars[v as usize].node)
}

/// pseudo-random 256-bit value derived from the run seed and a counter (for shadow values)
pub fn prf(seed: u64, ctr: u64, data: &[u8]) -> U256 {
    let mut out = [0u64; 4];
    for (lane, o) in out.iter_mut().enumerate() {
        let mut h: u64 = 0x9E37_79B9_7F4A_7C15 ^ seed.wrapping_mul(0xD6E8_FEB8_6659_FD93) ^ ((lane as u64 + 1) << 56) ^ ctr.wrapping_mul(0xA24B_AED4_963E_E407);
        let mut mix = |x: u64| {
            h ^= x;
            h = h.wrapping_mul(0xFF51_AFD7_ED55_8CCD);
            h ^= h >> 33;
            h = h.wrapping_mul(0xC4CE_B9FE_1A85_EC53);
            h ^= h >> 29;
        };
        mix(data.len() as u64);
        for c in data.chunks(8) {
            let mut b = [0u8; 8];
            b[..c.len()].copy_from_slice(c);
            mix(u64::from_le_bytes(b));
        }
        mix(lane as u64);
        *o = h;
    }
    out
}

/// A random draw: consumes the caller-provided bytes (kept so stream offsets stay meaningful),
/// returns a fresh scalar variable whose shadow value is the 512-bit little-endian integer mod q
/// (exactly what the real `Scalar::random` computes from the same 64 bytes).
pub fn draw(prefix: &str, bytes64: &[u8; 64]) -> Tid {
    with(|a| {
        if let Some(&v) = a.draw_by_bytes.get(&bytes64[..]) {
            // a replayed randomness stream (e.g. a cloned RNG): identical bytes are the identical draw
            a.draws.push(v);
            return a.vars[v as usize].node;
        }
        let limbs = fq::from_le_bytes(bytes64);
        let sh = fq::reduce(&limbs);
        let n = a.draws.len();
        let v = a.new_var(format!("{}{}", prefix, n), VarKind::Scalar, sh, Origin::Draw(n));
        a.draws.push(v);
        a.draw_by_bytes.insert(bytes64.to_vec(), v);
        let t = a.vars[v as usize].node;
        if a.mode == DrawMode::NonDegenerate {
            assert!(sh != fq::ZERO, "NonDegenerate mode but the RNG stream produced a zero draw");
            a.axioms.push((F::EqZ(t).not(), format!("draw {} non-zero", n)));
        }
        t
    })
}

thread_local! {
    /// Optional consistency oracle installed by the harness: given a condition, says whether the path
    /// condition recorded so far already forces its outcome.  Consulted only after the path has deviated
    /// from the shadow values (a flipped or forced decision), where the shadow outcome may be infeasible.
    pub static CONSISTENCY: RefCell<Option<Box<dyn Fn(&F) -> Option<bool>>>> = RefCell::new(None);
}
pub fn set_consistency_oracle(f: Option<Box<dyn Fn(&F) -> Option<bool>>>) {
    CONSISTENCY.with(|c| *c.borrow_mut() = f);
}

/// Record a decision. Follows the prefix if one is installed for this position, the shadow values otherwise.
pub fn decide(f: F) -> bool {
    match f {
        F::True => return true,
        F::False => return false,
        _ => {}
    }
    enum Pre {
        Done(bool),
        Go { shadow: bool, imposed: Option<bool>, deviated: bool },
    }
    let pre = with(|a| {
        if let F::EqZ(t) = &f {
            if let Node::Const(c) = &a.nodes[*t as usize] {
                return Pre::Done(*c == fq::ZERO);
            }
        }
        if let Some(prev) = a.decided.as_ref().and_then(|m| m.get(&f).copied()) {
            // the same comparison again on this path: same truth value (a forced-outcome entry meant for it is consumed)
            let _ = a.force_queue.pop_front();
            return Pre::Done(prev);
        }
        let shadow = a.eval(&f);
        let pos = a.decisions.len();
        let imposed = if pos < a.prefix.len() {
            Some(a.prefix[pos])
        } else if let Some(b) = a.force_queue.pop_front() {
            Some(b)
        } else {
            a.force
        };
        let deviated = a.decisions.iter().any(|d| d.outcome != d.shadow);
        Pre::Go { shadow, imposed, deviated }
    });
    let (shadow, imposed, deviated) = match pre {
        Pre::Done(b) => return b,
        Pre::Go { shadow, imposed, deviated } => (shadow, imposed, deviated),
    };
    let (outcome, forced) = match imposed {
        Some(b) => (b, true),
        None => {
            let mut o = shadow;
            if deviated {
                let forced_by_pc = CONSISTENCY.with(|c| c.borrow().as_ref().and_then(|cb| cb(&f)));
                if let Some(b) = forced_by_pc {
                    o = b;
                }
            }
            (o, false)
        }
    };
    with(|a| {
        if let Some(m) = a.decided.as_mut() {
            m.insert(f.clone(), outcome);
        }
        a.decisions.push(Decision { cond: f, outcome, shadow, forced, label: a.cur_label });
        if a.decisions.len() > a.max_decisions {
            panic!("symex: decision budget exceeded ({})", a.max_decisions);
        }
    });
    outcome
}

pub fn mark_offgroup(t: Tid) {
    with(|a| {
        a.offgroup.insert(t);
    })
}
pub fn is_offgroup(t: Tid) -> bool {
    with(|a| a.offgroup.contains(&t))
}

/// Switch the same-comparison-same-outcome rule on (starting with an empty memory) or off.
pub fn dedupe(on: bool) {
    let on = on && std::env::var("VX_NO_DEDUPE").is_err();
    with(|a| a.decided = if on { Some(HashMap::new()) } else { None })
}

pub fn eq_formula(x: Tid, y: Tid) -> F {
    if x == y {
        return F::True;
    }
    let d = mk(Node::Sub(x, y));
    match node_of(d) {
        Node::Const(c) => {
            if c == fq::ZERO {
                F::True
            } else {
                F::False
            }
        }
        _ => F::EqZ(d),
    }
}

// ------------------------------------------------------------------------------------------------
// tokens: byte strings standing for the encoding of a term

pub fn token<const L: usize>(kind: u8, id: u32) -> [u8; L] {
    let mut b = [0u8; L];
    write_token(&mut b, kind, id);
    b
}
pub const LIMB_MAGIC: [u8; 2] = [0xFF, 0x5A];
/// 8 bytes standing for limb `idx` of blob variable `var`: [0xFF, 0x5A, 0xB0|idx, var(4 LE), epoch(1)]
pub fn limb_token(var: u32, idx: u8) -> [u8; 8] {
    let epoch = with(|a| a.epoch);
    let v = var.to_le_bytes();
    [LIMB_MAGIC[0], LIMB_MAGIC[1], 0xB0 | idx, v[0], v[1], v[2], v[3], epoch as u8]
}
pub fn parse_limb(b: &[u8]) -> Option<(u32, u8)> {
    if b.len() >= 8 && b[0] == LIMB_MAGIC[0] && b[1] == LIMB_MAGIC[1] && (b[2] & 0xF0) == 0xB0 && (b[2] & 0x0F) < 4 {
        let var = u32::from_le_bytes([b[3], b[4], b[5], b[6]]);
        let ok = with(|a| (a.epoch as u8) == b[7] && (var as usize) < a.vars.len() && a.vars[var as usize].kind == VarKind::Blob);
        if ok {
            return Some((var, b[2] & 0x0F));
        }
    }
    None
}
/// 64 bits of a 256-bit value starting at byte offset `off` (0..=24)
pub fn window64(v: &U256, off: u8) -> u64 {
    let b = fq::to_le_bytes(v);
    let o = off as usize;
    let mut w = [0u8; 8];
    w.copy_from_slice(&b[o..o + 8]);
    u64::from_le_bytes(w)
}
/// An 8-byte word read out of a blob image at ANY byte offset: Some((var, byte offset)).  Aligned words are the limb
/// tokens themselves; a misaligned word straddles two neighbouring limb tokens of one variable (e.g. bytes 23..31 of a
/// channel id read as "the fourth limb"): it is recognised by reconstructing the two tokens and comparing all 8 bytes.
pub fn parse_window(w: &[u8]) -> Option<(u32, u8)> {
    if w.len() < 8 {
        return None;
    }
    if let Some((v, i)) = parse_limb(w) {
        return Some((v, 8 * i));
    }
    for r in 1..8usize {
        // w = T_k[r..8] ++ T_{k+1}[0..r]
        let at = |j: usize| -> u8 {
            // byte j (0..8) of the token layout, taken from whichever piece holds it; var bytes are shared by both tokens
            if j >= r {
                w[j - r]
            } else {
                w[8 - r + j]
            }
        };
        let var = u32::from_le_bytes([at(3), at(4), at(5), at(6)]);
        let k: i32 = if r <= 2 { (w[2 - r] & 0x0F) as i32 } else { (w[8 - r + 2] & 0x0F) as i32 - 1 };
        if !(0..=2).contains(&k) {
            continue;
        }
        let ok = with(|a| (var as usize) < a.vars.len() && a.vars[var as usize].kind == VarKind::Blob);
        if !ok {
            continue;
        }
        let (t0, t1) = (limb_token(var, k as u8), limb_token(var, k as u8 + 1));
        let mut exp = [0u8; 8];
        exp[..8 - r].copy_from_slice(&t0[r..]);
        exp[8 - r..].copy_from_slice(&t1[..r]);
        if exp[..] == w[..8] {
            return Some((var, (8 * k as usize + r) as u8));
        }
    }
    None
}
/// true if the 8 bytes contain the limb-token magic somewhere but are not a recognisable window of a blob
pub fn suspicious_word(w: &[u8]) -> bool {
    parse_window(w).is_none() && w.windows(2).any(|p| p == LIMB_MAGIC) && w.iter().any(|b| (b & 0xF0) == 0xB0)
}
/// Some(var) if the 32 bytes are the four limbs 0..3 of one blob variable, in order
pub fn parse_blob(b: &[u8]) -> Option<u32> {
    if b.len() < 32 {
        return None;
    }
    let (v0, i0) = parse_limb(&b[0..8])?;
    if i0 != 0 {
        return None;
    }
    for k in 1..4u8 {
        let (v, i) = parse_limb(&b[8 * k as usize..8 * k as usize + 8])?;
        if v != v0 || i != k {
            return None;
        }
    }
    Some(v0)
}
pub fn write_token(b: &mut [u8], kind: u8, id: u32) {
    if kind == K_DIGEST {
        // a 32-byte blob is written limb by limb, so that code which re-assembles, drops or reorders 8-byte words of it
        // (ChannelId::to_scalar, ChallengeBuilder::finish) is seen doing so
        assert_eq!(b.len(), 32, "blob tokens are 32 bytes");
        for k in 0..4u8 {
            b[8 * k as usize..8 * k as usize + 8].copy_from_slice(&limb_token(id, k));
        }
        return;
    }
    assert!(b.len() >= TOKEN_LEN);
    let epoch = with(|a| a.epoch);
    for x in b.iter_mut() {
        *x = 0;
    }
    b[..8].copy_from_slice(&MAGIC);
    b[8] = kind;
    b[9..13].copy_from_slice(&id.to_le_bytes());
    b[13..17].copy_from_slice(&epoch.to_le_bytes());
    let w = b.len() as u16;
    b[17..19].copy_from_slice(&w.to_le_bytes());
}
/// (kind, id, width)
/// like `untoken`, but a byte string that merely starts with the token magic (e.g. the first 8 bytes of a token read as a
/// u64 and widened again) is not a token: None instead of a panic
pub fn untoken_lenient(b: &[u8]) -> Option<(u8, u32, usize)> {
    if b.len() >= TOKEN_LEN && b[..8] == MAGIC {
        let epoch = u32::from_le_bytes([b[13], b[14], b[15], b[16]]);
        let cur = with(|a| a.epoch);
        let w = u16::from_le_bytes([b[17], b[18]]) as usize;
        if epoch != cur || w != b.len() {
            return None;
        }
        return Some((b[8], u32::from_le_bytes([b[9], b[10], b[11], b[12]]), w));
    }
    None
}
pub fn untoken(b: &[u8]) -> Option<(u8, u32, usize)> {
    if b.len() >= TOKEN_LEN && b[..8] == MAGIC {
        let epoch = u32::from_le_bytes([b[13], b[14], b[15], b[16]]);
        let cur = with(|a| a.epoch);
        assert_eq!(epoch, cur, "symex: token from another run leaked into this one");
        let w = u16::from_le_bytes([b[17], b[18]]) as usize;
        Some((b[8], u32::from_le_bytes([b[9], b[10], b[11], b[12]]), w))
    } else if let Some(v) = parse_blob(b) {
        Some((K_DIGEST, v, 32))
    } else {
        None
    }
}

pub fn parse_items(bytes: &[u8]) -> Vec<Item> {
    let mut items = vec![];
    let mut lit: Vec<u8> = vec![];
    let mut i = 0;
    while i < bytes.len() {
        let mut tok: Option<(u8, u32, usize)> = None;
        if i + TOKEN_LEN <= bytes.len() && bytes[i..i + 8] == MAGIC {
            let (kind, id, w) = untoken(&bytes[i..]).unwrap();
            if i + w <= bytes.len() && w >= TOKEN_LEN {
                tok = Some((kind, id, w));
            }
        } else if i + 32 <= bytes.len() && parse_blob(&bytes[i..i + 32]).is_some() {
            tok = Some((K_DIGEST, parse_blob(&bytes[i..i + 32]).unwrap(), 32));
        } else if i + 8 <= bytes.len() {
            if let Some((v, idx)) = parse_limb(&bytes[i..i + 8]) {
                tok = Some((K_LIMB, v * 4 + idx as u32, 8));
            }
        }
        if let Some((kind, id, w)) = tok {
            if !lit.is_empty() {
                items.push(Item::Lit(std::mem::take(&mut lit)));
            }
            items.push(Item::Tok { kind, id, width: w });
            i += w;
            continue;
        }
        lit.push(bytes[i]);
        i += 1;
    }
    if !lit.is_empty() {
        items.push(Item::Lit(lit));
    }
    items
}

/// concrete image of a transcript under the shadow values (tokens replaced by an injective concrete encoding)
fn shadow_bytes(a: &Arena, items: &[Item]) -> Vec<u8> {
    let mut out = vec![];
    for it in items {
        match it {
            Item::Lit(l) => out.extend_from_slice(l),
            Item::Tok { kind, id, width } => {
                if *kind == K_LIMB {
                    out.extend_from_slice(&a.vars[(*id / 4) as usize].shadow[(*id % 4) as usize].to_le_bytes());
                    continue;
                }
                let v = match *kind {
                    K_DIGEST => a.vars[*id as usize].shadow,
                    _ => a.shadow[*id as usize],
                };
                let mut enc = vec![0u8; *width];
                enc[..32].copy_from_slice(&fq::to_le_bytes(&v));
                if *width > 32 {
                    enc[32] = *kind;
                }
                out.extend_from_slice(&enc);
            }
        }
    }
    out
}

/// `Some(formula)` = the two byte images are equal iff formula; `None` = images of different shape
/// (treated as never equal; counted in `misaligned_pairs` when the lengths coincide).
fn transcript_eq(a: &mut Arena, x: &[Item], y: &[Item]) -> Option<F> {
    let lx: usize = x.iter().map(item_len).sum();
    let ly: usize = y.iter().map(item_len).sum();
    if lx != ly {
        return None;
    }
    let mut conds = vec![];
    let (mut i, mut j) = (0usize, 0usize);
    // offsets inside literal items
    let (mut oi, mut oj) = (0usize, 0usize);
    while i < x.len() && j < y.len() {
        match (&x[i], &y[j]) {
            (Item::Lit(p), Item::Lit(q)) => {
                let n = (p.len() - oi).min(q.len() - oj);
                if p[oi..oi + n] != q[oj..oj + n] {
                    return None;
                }
                oi += n;
                oj += n;
                if oi == p.len() {
                    i += 1;
                    oi = 0;
                }
                if oj == q.len() {
                    j += 1;
                    oj = 0;
                }
            }
            (Item::Tok { kind: k1, id: i1, width: w1 }, Item::Tok { kind: k2, id: i2, width: w2 }) => {
                if w1 != w2 {
                    a.misaligned_pairs += 1;
                    return None;
                }
                let c = match (*k1, *k2) {
                    (K_DIGEST, K_DIGEST) => {
                        if i1 == i2 {
                            F::True
                        } else {
                            F::BlobEq(*i1, *i2)
                        }
                    }
                    (K_LIMB, K_LIMB) => {
                        if i1 == i2 {
                            F::True
                        } else {
                            let la = a.mk(Node::Limb(*i1 / 4, 8 * (*i1 % 4) as u8));
                            let lb = a.mk(Node::Limb(*i2 / 4, 8 * (*i2 % 4) as u8));
                            let d = a.mk(Node::Sub(la, lb));
                            F::EqZ(d)
                        }
                    }
                    (K_DIGEST, K_SCALAR) => F::BlobIsTerm(*i1, *i2),
                    (K_SCALAR, K_DIGEST) => F::BlobIsTerm(*i2, *i1),
                    (p, q) if p == q && matches!(p, K_SCALAR | K_G1 | K_G2) => {
                        if i1 == i2 {
                            F::True
                        } else {
                            let d = a.mk(Node::Sub(*i1, *i2));
                            match &a.nodes[d as usize] {
                                Node::Const(c) if *c == fq::ZERO => F::True,
                                Node::Const(_) => F::False,
                                _ => F::EqZ(d),
                            }
                        }
                    }
                    (p, q) if p == q => {
                        // two "bad encoding" tokens: equal only if the same token
                        if i1 == i2 {
                            F::True
                        } else {
                            F::False
                        }
                    }
                    _ => F::False,
                };
                if c == F::False {
                    return Some(F::False);
                }
                conds.push(c);
                i += 1;
                j += 1;
            }
            (Item::Lit(p), Item::Tok { kind, id, width }) | (Item::Tok { kind, id, width }, Item::Lit(p)) => {
                let lit_is_x = matches!(&x[i], Item::Lit(_));
                let off = if lit_is_x { oi } else { oj };
                if p.len() - off < *width {
                    a.misaligned_pairs += 1;
                    return None;
                }
                let bytes = &p[off..off + *width];
                let c = if *width == 8 && *kind == K_LIMB {
                    let mut w8 = [0u8; 8];
                    w8.copy_from_slice(bytes);
                    let l = a.mk(Node::Limb(*id / 4, 8 * (*id % 4) as u8));
                    let k = a.mk(Node::Const([u64::from_le_bytes(w8), 0, 0, 0]));
                    let d = a.mk(Node::Sub(l, k));
                    F::EqZ(d)
                } else if *width == 32 {
                    let limbs = fq::from_le_bytes(bytes);
                    let v: U256 = [limbs[0], limbs[1], limbs[2], limbs[3]];
                    match *kind {
                        K_SCALAR => {
                            if fq::lt(&v, &fq::Q) {
                                let k = a.mk(Node::Const(v));
                                let d = a.mk(Node::Sub(*id, k));
                                match &a.nodes[d as usize] {
                                    Node::Const(c) if *c == fq::ZERO => F::True,
                                    Node::Const(_) => F::False,
                                    _ => F::EqZ(d),
                                }
                            } else {
                                F::False
                            }
                        }
                        _ => {
                            // a blob against literal bytes / bad token against literal: no model for that; treat as different
                            F::False
                        }
                    }
                } else {
                    F::False
                };
                if c == F::False {
                    return Some(F::False);
                }
                conds.push(c);
                if lit_is_x {
                    oi += *width;
                    if oi == p.len() {
                        i += 1;
                        oi = 0;
                    }
                    j += 1;
                } else {
                    oj += *width;
                    if oj == p.len() {
                        j += 1;
                        oj = 0;
                    }
                    i += 1;
                }
            }
        }
    }
    Some(F::and(conds))
}
fn item_len(i: &Item) -> usize {
    match i {
        Item::Lit(l) => l.len(),
        Item::Tok { width, .. } => *width,
    }
}

/// Register a finished hash transcript. Returns the digest variable index.
/// Adds the ideal-hash axiom against every earlier transcript:
/// `D_new = D_old  <=>  byte images equal`.
pub fn register_hash(bytes: &[u8]) -> u32 {
    let items = parse_items(bytes);
    with(|a| {
        let idx = a.hashes.len();
        let sb = shadow_bytes(a, &items);
        let sh = prf(0x5348_4133, a.oracle as u64, &sb);
        let dv = a.new_var(format!("D{}", idx), VarKind::Blob, sh, Origin::Digest(idx));
        for j in 0..idx {
            if a.hashes[j].oracle != a.oracle {
                continue;
            }
            let other = a.hashes[j].items.clone();
            let od = a.hashes[j].digest_var;
            let ax = match transcript_eq(a, &items, &other) {
                None | Some(F::False) => F::BlobEq(dv, od).not(),
                Some(F::True) => F::BlobEq(dv, od),
                Some(c) => F::iff(F::BlobEq(dv, od), c),
            };
            a.axioms.push((ax, format!("ideal hash D{} vs D{}", idx, j)));
        }
        let label = a.cur_label;
        let oracle = a.oracle;
        a.hashes.push(HashRec { oracle, items, raw: bytes.to_vec(), raw_len: bytes.len(), digest_var: dv, label });
        dv
    })
}

/// Formula "transcript i and transcript j have the same byte image"
pub fn transcripts_equal(i: usize, j: usize) -> Option<F> {
    with(|a| {
        let x = a.hashes[i].items.clone();
        let y = a.hashes[j].items.clone();
        transcript_eq(a, &x, &y)
    })
}

/// Run-independent fingerprint of a decision's condition: term ids are replaced by shadow values (for a difference a-b:
/// the pair of shadows), so that "the same comparison" is recognised across re-executions whose term numbering differs.
pub fn fingerprint(f: &F) -> u64 {
    use std::collections::hash_map::DefaultHasher;
    use std::hash::{Hash, Hasher};
    fn go(a: &Arena, f: &F, h: &mut DefaultHasher) {
        std::mem::discriminant(f).hash(h);
        match f {
            F::True | F::False => {}
            F::EqZ(t) => match &a.nodes[*t as usize] {
                Node::Sub(x, y) => {
                    a.shadow[*x as usize].hash(h);
                    a.shadow[*y as usize].hash(h);
                }
                _ => a.shadow[*t as usize].hash(h),
            },
            F::BlobLtQ(v) => a.vars[*v as usize].shadow.hash(h),
            F::BlobEq(v, w) => {
                a.vars[*v as usize].shadow.hash(h);
                a.vars[*w as usize].shadow.hash(h);
            }
            F::BlobIsTerm(v, t) => {
                a.vars[*v as usize].shadow.hash(h);
                a.shadow[*t as usize].hash(h);
            }
            F::BlobConst(v, c) => {
                a.vars[*v as usize].shadow.hash(h);
                c.hash(h);
            }
            F::Not(x) => go(a, x, h),
            F::And(xs) | F::Or(xs) => {
                for x in xs {
                    go(a, x, h)
                }
            }
            F::Iff(x, y) | F::Imp(x, y) => {
                go(a, x, h);
                go(a, y, h)
            }
        }
    }
    with(|a| {
        let mut h = DefaultHasher::new();
        go(a, f, &mut h);
        h.finish()
    })
}
pub fn snapshot_decisions() -> Vec<Decision> {
    with(|a| a.decisions.clone())
}
pub fn n_decisions() -> usize {
    with(|a| a.decisions.len())
}
pub fn n_hashes() -> usize {
    with(|a| a.hashes.len())
}

/// Evaluate formulas natively (exact F_q arithmetic) under an alternative assignment of some variables
/// (all others keep their shadow values).  Used to re-check solver models without the solver.
pub fn eval_with(model: &HashMap<u32, U256>, fs: &[F]) -> Vec<bool> {
    with(|a| {
        let saved_shadow = a.shadow.clone();
        let saved_vars: Vec<U256> = a.vars.iter().map(|v| v.shadow).collect();
        for (v, val) in model {
            a.vars[*v as usize].shadow = *val;
        }
        for t in 0..a.nodes.len() {
            let sh = match &a.nodes[t] {
                Node::Const(c) => *c,
                Node::Var(v) => fq::reduce(&a.vars[*v as usize].shadow),
                Node::Limb(v, off) => [window64(&a.vars[*v as usize].shadow, *off), 0, 0, 0],
                Node::Add(x, y) => fq::add(&a.shadow[*x as usize], &a.shadow[*y as usize]),
                Node::Sub(x, y) => fq::sub(&a.shadow[*x as usize], &a.shadow[*y as usize]),
                Node::Mul(x, y) => fq::mul(&a.shadow[*x as usize], &a.shadow[*y as usize]),
                Node::Neg(x) => fq::neg(&a.shadow[*x as usize]),
            };
            a.shadow[t] = sh;
        }
        let out = fs.iter().map(|f| a.eval(f)).collect();
        a.shadow = saved_shadow;
        for (i, v) in saved_vars.into_iter().enumerate() {
            a.vars[i].shadow = v;
        }
        out
    })
}
pub fn var_index(name: &str) -> Option<u32> {
    with(|a| a.vars.iter().position(|v| v.name == name).map(|i| i as u32))
}

//! Exact arithmetic in F_q (q = BLS12-381 scalar field order) on 4x64-bit little-endian limbs.
//! Used for the concrete *shadow values* every symbolic term carries.
pub type U256 = [u64; 4];

pub const Q: U256 = [
    0xffff_ffff_0000_0001,
    0x53bd_a402_fffe_5bfe,
    0x3339_d808_09a1_d805,
    0x73ed_a753_299d_7d48,
];
pub const Q_DEC: &str =
    "52435875175126190479447740508185965837690552500527637822603658699938581184513";
pub const TWO256_DEC: &str =
    "115792089237316195423570985008687907853269984665640564039457584007913129639936";
pub const ZERO: U256 = [0; 4];
pub const ONE: U256 = [1, 0, 0, 0];

#[inline]
pub fn lt(a: &U256, b: &U256) -> bool {
    for i in (0..4).rev() {
        if a[i] != b[i] {
            return a[i] < b[i];
        }
    }
    false
}
#[inline]
fn add_raw(a: &U256, b: &U256) -> (U256, bool) {
    let mut r = [0u64; 4];
    let mut c = 0u128;
    for i in 0..4 {
        let s = a[i] as u128 + b[i] as u128 + c;
        r[i] = s as u64;
        c = s >> 64;
    }
    (r, c != 0)
}
#[inline]
fn sub_raw(a: &U256, b: &U256) -> (U256, bool) {
    let mut r = [0u64; 4];
    let mut bw = 0i128;
    for i in 0..4 {
        let d = a[i] as i128 - b[i] as i128 - bw;
        if d < 0 {
            r[i] = (d + (1i128 << 64)) as u64;
            bw = 1;
        } else {
            r[i] = d as u64;
            bw = 0;
        }
    }
    (r, bw != 0)
}
/// a, b < q
pub fn add(a: &U256, b: &U256) -> U256 {
    let (s, c) = add_raw(a, b);
    if c || !lt(&s, &Q) {
        sub_raw(&s, &Q).0
    } else {
        s
    }
}
pub fn sub(a: &U256, b: &U256) -> U256 {
    let (d, bw) = sub_raw(a, b);
    if bw {
        add_raw(&d, &Q).0
    } else {
        d
    }
}
pub fn neg(a: &U256) -> U256 {
    if *a == ZERO {
        ZERO
    } else {
        sub_raw(&Q, a).0
    }
}
/// reduce an arbitrary little-endian limb string mod q (bitwise long division; exact)
pub fn reduce(limbs: &[u64]) -> U256 {
    let mut r = ZERO;
    for &l in limbs.iter().rev() {
        for bit in (0..64).rev() {
            // r = 2r + bit  (r < q < 2^255 so no overflow of 256 bits)
            let (mut d, _) = add_raw(&r, &r);
            d[0] |= (l >> bit) & 1;
            if !lt(&d, &Q) {
                d = sub_raw(&d, &Q).0;
            }
            r = d;
        }
    }
    r
}
pub fn mul(a: &U256, b: &U256) -> U256 {
    let mut w = [0u64; 8];
    for i in 0..4 {
        let mut c = 0u128;
        for j in 0..4 {
            let t = w[i + j] as u128 + (a[i] as u128) * (b[j] as u128) + c;
            w[i + j] = t as u64;
            c = t >> 64;
        }
        w[i + 4] = c as u64;
    }
    reduce(&w)
}
pub fn pow(a: &U256, e: &U256) -> U256 {
    let mut r = ONE;
    for i in (0..4).rev() {
        for bit in (0..64).rev() {
            r = mul(&r, &r);
            if (e[i] >> bit) & 1 == 1 {
                r = mul(&r, a);
            }
        }
    }
    r
}
pub fn inv(a: &U256) -> U256 {
    let e = sub_raw(&Q, &[2, 0, 0, 0]).0;
    pow(a, &e)
}
pub fn from_le_bytes(b: &[u8]) -> Vec<u64> {
    b.chunks(8)
        .map(|c| {
            let mut x = [0u8; 8];
            x[..c.len()].copy_from_slice(c);
            u64::from_le_bytes(x)
        })
        .collect()
}
pub fn to_le_bytes(a: &U256) -> [u8; 32] {
    let mut b = [0u8; 32];
    for i in 0..4 {
        b[8 * i..8 * i + 8].copy_from_slice(&a[i].to_le_bytes());
    }
    b
}
pub fn to_dec(l: &U256) -> String {
    let mut v = [l[3], l[2], l[1], l[0]];
    let mut digits = Vec::new();
    loop {
        let mut rem: u128 = 0;
        let mut allz = true;
        for x in v.iter_mut() {
            let cur = (rem << 64) | (*x as u128);
            *x = (cur / 10) as u64;
            rem = cur % 10;
            if *x != 0 {
                allz = false;
            }
        }
        digits.push(b'0' + rem as u8);
        if allz {
            break;
        }
    }
    digits.reverse();
    String::from_utf8(digits).unwrap()
}
/// parse a decimal string into 256 bits (panics on overflow)
pub fn from_dec(s: &str) -> U256 {
    let mut r = ZERO;
    for ch in s.bytes() {
        assert!(ch.is_ascii_digit());
        // r = r*10 + d
        let mut c = (ch - b'0') as u128;
        for i in 0..4 {
            let t = (r[i] as u128) * 10 + c;
            r[i] = t as u64;
            c = t >> 64;
        }
        assert!(c == 0, "decimal overflow");
    }
    r
}
pub fn to_hex(a: &U256) -> String {
    format!("{:016x}{:016x}{:016x}{:016x}", a[3], a[2], a[1], a[0])
}

#[cfg(test)]
mod t {
    use super::*;
    #[test]
    fn basics() {
        let qm1 = sub_raw(&Q, &ONE).0;
        assert_eq!(add(&qm1, &ONE), ZERO);
        assert_eq!(mul(&qm1, &qm1), ONE);
        assert_eq!(to_dec(&Q), Q_DEC);
        assert_eq!(from_dec(Q_DEC), Q);
        let a = [5, 6, 7, 8];
        let a = reduce(&a);
        assert_eq!(mul(&a, &inv(&a)), ONE);
        assert_eq!(sub(&ZERO, &ONE), qm1);
        assert_eq!(neg(&ONE), qm1);
    }
}

//! Verification stand-in for `sha3` 0.9.1: a *recording ideal hash*.
//! `update` accumulates bytes; `finalize` registers the transcript with the symbolic-execution
//! runtime (which adds the ideal-hash axioms) and returns a token for a fresh 256-bit digest
//! variable.
pub use digest::{self, Digest};
use bls12_381::symex::{register_hash, token, K_DIGEST};
use digest::{
    generic_array::{typenum::U32, GenericArray},
    FixedOutputDirty, Reset, Update,
};

#[derive(Clone, Default, Debug)]
pub struct Sha3_256 {
    buf: Vec<u8>,
}
impl Update for Sha3_256 {
    fn update(&mut self, data: impl AsRef<[u8]>) {
        self.buf.extend_from_slice(data.as_ref());
    }
}
impl Reset for Sha3_256 {
    fn reset(&mut self) {
        self.buf.clear();
    }
}
impl FixedOutputDirty for Sha3_256 {
    type OutputSize = U32;
    fn finalize_into_dirty(&mut self, out: &mut GenericArray<u8, U32>) {
        let buf = std::mem::take(&mut self.buf);
        let dv = register_hash(&buf);
        out.copy_from_slice(&token::<32>(K_DIGEST, dv));
    }
}

//! Honest zkAbacus flows used by several property harnesses.

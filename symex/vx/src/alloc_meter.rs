//! Counting global allocator: largest single allocation requested since the last reset (per thread).
use std::alloc::{GlobalAlloc, Layout, System};
use std::cell::Cell;

pub struct Meter;
thread_local! { static PEAK: Cell<usize> = const { Cell::new(0) }; }

unsafe impl GlobalAlloc for Meter {
    unsafe fn alloc(&self, l: Layout) -> *mut u8 {
        if !bls12_381::symex::in_runtime() {
            let _ = PEAK.try_with(|p| {
                if l.size() > p.get() {
                    p.set(l.size())
                }
            });
        }
        System.alloc(l)
    }
    unsafe fn dealloc(&self, p: *mut u8, l: Layout) {
        System.dealloc(p, l)
    }
    unsafe fn realloc(&self, p: *mut u8, l: Layout, n: usize) -> *mut u8 {
        if !bls12_381::symex::in_runtime() {
            let _ = PEAK.try_with(|pk| {
                if n > pk.get() {
                    pk.set(n)
                }
            });
        }
        System.realloc(p, l, n)
    }
}
pub fn reset() {
    PEAK.with(|p| p.set(0));
}
pub fn peak() -> usize {
    PEAK.with(|p| p.get())
}

//! Wire layout discovery: a serde `Serializer` that produces exactly bincode's (default, fixint, LE)
//! byte image *and* remembers which struct field every byte belongs to.  Pure serde code: shared
//! (via #[path]) between the symbolic-execution harnesses and the real-crate replay binary.
use serde::ser::{self, Serialize};
use std::fmt;

#[derive(Clone, Debug, PartialEq, Eq)]
pub enum Kind {
    Bytes,
    Int(u8),
    LenPrefix,
    Variant,
    OptionTag,
    Bool,
}

#[derive(Clone, Debug)]
pub struct Field {
    pub path: String,
    pub off: usize,
    pub len: usize,
    pub kind: Kind,
}

#[derive(Clone, Debug, Default)]
pub struct Layout {
    pub bytes: Vec<u8>,
    pub fields: Vec<Field>,
}

#[derive(Debug)]
pub struct LErr(String);
impl fmt::Display for LErr {
    fn fmt(&self, f: &mut fmt::Formatter<'_>) -> fmt::Result {
        write!(f, "{}", self.0)
    }
}
impl std::error::Error for LErr {}
impl ser::Error for LErr {
    fn custom<T: fmt::Display>(msg: T) -> Self {
        LErr(msg.to_string())
    }
}

pub struct LS<'a> {
    out: &'a mut Layout,
    path: String,
}

impl<'a> LS<'a> {
    fn put(&mut self, b: &[u8], kind: Kind) {
        let off = self.out.bytes.len();
        self.out.bytes.extend_from_slice(b);
        self.out.fields.push(Field { path: self.path.clone(), off, len: b.len(), kind });
    }
    fn child(&mut self, name: &str) -> LS<'_> {
        let path = if self.path.is_empty() { name.to_string() } else { format!("{}.{}", self.path, name) };
        LS { out: self.out, path }
    }
}

pub struct Compound<'a> {
    s: LS<'a>,
    idx: usize,
}

macro_rules! int_ser {
    ($f:ident, $t:ty) => {
        fn $f(mut self, v: $t) -> Result<(), LErr> {
            self.put(&v.to_le_bytes(), Kind::Int(std::mem::size_of::<$t>() as u8));
            Ok(())
        }
    };
}

impl<'a> ser::Serializer for LS<'a> {
    type Ok = ();
    type Error = LErr;
    type SerializeSeq = Compound<'a>;
    type SerializeTuple = Compound<'a>;
    type SerializeTupleStruct = Compound<'a>;
    type SerializeTupleVariant = Compound<'a>;
    type SerializeMap = Compound<'a>;
    type SerializeStruct = Compound<'a>;
    type SerializeStructVariant = Compound<'a>;

    fn serialize_bool(mut self, v: bool) -> Result<(), LErr> {
        self.put(&[v as u8], Kind::Bool);
        Ok(())
    }
    int_ser!(serialize_i8, i8);
    int_ser!(serialize_i16, i16);
    int_ser!(serialize_i32, i32);
    int_ser!(serialize_i64, i64);
    int_ser!(serialize_u16, u16);
    int_ser!(serialize_u32, u32);
    int_ser!(serialize_u64, u64);
    fn serialize_u8(mut self, v: u8) -> Result<(), LErr> {
        self.put(&[v], Kind::Int(1));
        Ok(())
    }
    fn serialize_f32(self, _: f32) -> Result<(), LErr> {
        Err(LErr("f32 unsupported".into()))
    }
    fn serialize_f64(self, _: f64) -> Result<(), LErr> {
        Err(LErr("f64 unsupported".into()))
    }
    fn serialize_char(self, _: char) -> Result<(), LErr> {
        Err(LErr("char unsupported".into()))
    }
    fn serialize_str(mut self, v: &str) -> Result<(), LErr> {
        self.put(&(v.len() as u64).to_le_bytes(), Kind::LenPrefix);
        self.put(v.as_bytes(), Kind::Bytes);
        Ok(())
    }
    fn serialize_bytes(mut self, v: &[u8]) -> Result<(), LErr> {
        self.put(&(v.len() as u64).to_le_bytes(), Kind::LenPrefix);
        self.put(v, Kind::Bytes);
        Ok(())
    }
    fn serialize_none(mut self) -> Result<(), LErr> {
        self.put(&[0], Kind::OptionTag);
        Ok(())
    }
    fn serialize_some<T: ?Sized + Serialize>(mut self, v: &T) -> Result<(), LErr> {
        self.put(&[1], Kind::OptionTag);
        v.serialize(self)
    }
    fn serialize_unit(self) -> Result<(), LErr> {
        Ok(())
    }
    fn serialize_unit_struct(self, _: &'static str) -> Result<(), LErr> {
        Ok(())
    }
    fn serialize_unit_variant(mut self, _: &'static str, idx: u32, _: &'static str) -> Result<(), LErr> {
        self.put(&idx.to_le_bytes(), Kind::Variant);
        Ok(())
    }
    fn serialize_newtype_struct<T: ?Sized + Serialize>(self, _: &'static str, v: &T) -> Result<(), LErr> {
        v.serialize(self)
    }
    fn serialize_newtype_variant<T: ?Sized + Serialize>(mut self, _: &'static str, idx: u32, var: &'static str, v: &T) -> Result<(), LErr> {
        self.put(&idx.to_le_bytes(), Kind::Variant);
        let LS { out, path } = self;
        let path = if path.is_empty() { var.to_string() } else { format!("{}.{}", path, var) };
        v.serialize(LS { out, path })
    }
    fn serialize_seq(mut self, len: Option<usize>) -> Result<Compound<'a>, LErr> {
        let len = len.ok_or_else(|| LErr("seq without length".into()))?;
        self.put(&(len as u64).to_le_bytes(), Kind::LenPrefix);
        Ok(Compound { s: self, idx: 0 })
    }
    fn serialize_tuple(self, _: usize) -> Result<Compound<'a>, LErr> {
        Ok(Compound { s: self, idx: 0 })
    }
    fn serialize_tuple_struct(self, _: &'static str, _: usize) -> Result<Compound<'a>, LErr> {
        Ok(Compound { s: self, idx: 0 })
    }
    fn serialize_tuple_variant(mut self, _: &'static str, idx: u32, _: &'static str, _: usize) -> Result<Compound<'a>, LErr> {
        self.put(&idx.to_le_bytes(), Kind::Variant);
        Ok(Compound { s: self, idx: 0 })
    }
    fn serialize_map(mut self, len: Option<usize>) -> Result<Compound<'a>, LErr> {
        let len = len.ok_or_else(|| LErr("map without length".into()))?;
        self.put(&(len as u64).to_le_bytes(), Kind::LenPrefix);
        Ok(Compound { s: self, idx: 0 })
    }
    fn serialize_struct(self, _: &'static str, _: usize) -> Result<Compound<'a>, LErr> {
        Ok(Compound { s: self, idx: 0 })
    }
    fn serialize_struct_variant(mut self, _: &'static str, idx: u32, _: &'static str, _: usize) -> Result<Compound<'a>, LErr> {
        self.put(&idx.to_le_bytes(), Kind::Variant);
        Ok(Compound { s: self, idx: 0 })
    }
}

impl<'a> Compound<'a> {
    fn elem<T: ?Sized + Serialize>(&mut self, v: &T) -> Result<(), LErr> {
        let name = format!("{}", self.idx);
        self.idx += 1;
        v.serialize(self.s.child(&name))
    }
}
impl<'a> ser::SerializeSeq for Compound<'a> {
    type Ok = ();
    type Error = LErr;
    fn serialize_element<T: ?Sized + Serialize>(&mut self, v: &T) -> Result<(), LErr> {
        self.elem(v)
    }
    fn end(self) -> Result<(), LErr> {
        Ok(())
    }
}
impl<'a> ser::SerializeTuple for Compound<'a> {
    type Ok = ();
    type Error = LErr;
    fn serialize_element<T: ?Sized + Serialize>(&mut self, v: &T) -> Result<(), LErr> {
        self.elem(v)
    }
    fn end(self) -> Result<(), LErr> {
        Ok(())
    }
}
impl<'a> ser::SerializeTupleStruct for Compound<'a> {
    type Ok = ();
    type Error = LErr;
    fn serialize_field<T: ?Sized + Serialize>(&mut self, v: &T) -> Result<(), LErr> {
        self.elem(v)
    }
    fn end(self) -> Result<(), LErr> {
        Ok(())
    }
}
impl<'a> ser::SerializeTupleVariant for Compound<'a> {
    type Ok = ();
    type Error = LErr;
    fn serialize_field<T: ?Sized + Serialize>(&mut self, v: &T) -> Result<(), LErr> {
        self.elem(v)
    }
    fn end(self) -> Result<(), LErr> {
        Ok(())
    }
}
impl<'a> ser::SerializeMap for Compound<'a> {
    type Ok = ();
    type Error = LErr;
    fn serialize_key<T: ?Sized + Serialize>(&mut self, v: &T) -> Result<(), LErr> {
        self.elem(v)
    }
    fn serialize_value<T: ?Sized + Serialize>(&mut self, v: &T) -> Result<(), LErr> {
        self.elem(v)
    }
    fn end(self) -> Result<(), LErr> {
        Ok(())
    }
}
impl<'a> ser::SerializeStruct for Compound<'a> {
    type Ok = ();
    type Error = LErr;
    fn serialize_field<T: ?Sized + Serialize>(&mut self, name: &'static str, v: &T) -> Result<(), LErr> {
        self.idx += 1;
        v.serialize(self.s.child(name))
    }
    fn end(self) -> Result<(), LErr> {
        Ok(())
    }
}
impl<'a> ser::SerializeStructVariant for Compound<'a> {
    type Ok = ();
    type Error = LErr;
    fn serialize_field<T: ?Sized + Serialize>(&mut self, name: &'static str, v: &T) -> Result<(), LErr> {
        self.idx += 1;
        v.serialize(self.s.child(name))
    }
    fn end(self) -> Result<(), LErr> {
        Ok(())
    }
}

/// Serialise with field tracking; merges runs of single bytes that belong to one array into one leaf.
/// The image is checked against real `bincode::serialize` (same bytes or panic).
pub fn layout<T: Serialize>(v: &T) -> Layout {
    let mut l = Layout::default();
    v.serialize(LS { out: &mut l, path: String::new() }).expect("layout serializer");
    // merge u8 runs: fields "p.0","p.1",... of Kind::Int(1), contiguous, same parent
    let mut merged: Vec<Field> = vec![];
    for f in l.fields.drain(..) {
        if f.kind == Kind::Int(1) {
            let parent = match f.path.rfind('.') {
                Some(i) => f.path[..i].to_string(),
                None => String::new(),
            };
            let is_indexed = f.path.rsplit('.').next().map(|s| s.chars().all(|c| c.is_ascii_digit())).unwrap_or(false);
            if is_indexed {
                if let Some(last) = merged.last_mut() {
                    if last.kind == Kind::Bytes && last.path == parent && last.off + last.len == f.off {
                        last.len += 1;
                        continue;
                    }
                }
                let idx0 = f.path.rsplit('.').next() == Some("0");
                if idx0 {
                    merged.push(Field { path: parent, off: f.off, len: 1, kind: Kind::Bytes });
                    continue;
                }
            }
        }
        merged.push(f);
    }
    l.fields = merged;
    let real = bincode::serialize(v).expect("bincode serialize");
    assert_eq!(real, l.bytes, "layout serializer disagrees with bincode");
    l
}


//! Check context: obligations, verdicts, findings, evidence.
use crate::solver::{self, Answer, Solvers};
use bls12_381::fq;
use bls12_381::symex::{self as sx, F};
use serde_json::{json, Value};
use std::cell::RefCell;
use std::collections::{BTreeSet, HashMap};
use std::time::Instant;

#[derive(Clone, Copy, Debug, PartialEq, Eq)]
pub enum Tier {
    Quick,
    Thorough,
}

#[derive(Clone, Debug)]
pub struct ObRecord {
    pub name: String,
    pub kind: &'static str, // VALID | WITNESS | REFUTE
    pub verdict: String,    // held | violated | inconclusive
    pub answer: String,
    pub ms: f64,
    pub bytes: usize,
    pub nvars: usize,
    pub nasserts: usize,
    pub cross: Vec<(String, String)>,
}

#[derive(Clone, Debug)]
pub struct Finding {
    /// stable role key (used to match known findings)
    pub key: String,
    pub detail: String,
    pub model: Option<HashMap<String, String>>,
    /// replay kind + parameters understood by the replay binary
    pub replay: Value,
}

pub struct Ctx {
    pub prop: String,
    pub tier: Tier,
    pub seed: u64,
    pub solvers: Solvers,
    pub obligations: Vec<ObRecord>,
    pub findings: Vec<Finding>,
    pub inconclusive: Vec<String>,
    pub paths: usize,
    pub decisions: usize,
    pub hashes: usize,
    pub samples: Vec<Value>,
    pub functions: Vec<String>,
    pub bounds: Vec<String>,
    pub assumptions: Vec<String>,
    pub stubs: Vec<String>,
    pub t0: Instant,
    pub solver_ms: f64,
    pub retries: usize,
    pub traces_validated: usize,
    pub notes: Vec<String>,
    pub quiet: bool,
}

thread_local! {
    pub static CTX: RefCell<Option<Ctx>> = RefCell::new(None);
}

pub fn ctx<R>(f: impl FnOnce(&mut Ctx) -> R) -> R {
    CTX.with(|c| f(c.borrow_mut().as_mut().expect("no check context")))
}

thread_local! { static TIMEOUT_OVERRIDE: std::cell::Cell<Option<u64>> = std::cell::Cell::new(None); }
/// run `f` with a different per-query solver timeout
pub fn with_timeout<R>(ms: u64, f: impl FnOnce() -> R) -> R {
    let old = TIMEOUT_OVERRIDE.with(|t| t.replace(Some(ms)));
    let r = f();
    TIMEOUT_OVERRIDE.with(|t| t.set(old));
    r
}
pub fn timeout_ms() -> u64 {
    if let Some(t) = TIMEOUT_OVERRIDE.with(|t| t.get()) {
        return t;
    }
    ctx(|c| {
        // time budget of a whole run: once the solver has used it up (a change to the code under test can turn hundreds of
        // 50 ms proofs into 20 s model searches), the remaining queries get a short limit so that the run still ends with a
        // verdict (violations found so far, the rest inconclusive) instead of being cut off by the driver
        let (limit, budget_ms) = match c.tier {
            Tier::Quick => (20_000, 420_000.0),
            Tier::Thorough => (120_000, 4.0 * 3_600_000.0),
        };
        if c.solver_ms > budget_ms {
            3_000
        } else {
            limit
        }
    })
}

pub fn init(prop: &str, tier: Tier, seed: u64) {
    let save = std::env::var("VX_SAVE_SMT").ok().map(|d| format!("{}/{}", d, prop));
    let cross = tier == Tier::Thorough && std::env::var("VX_NO_CROSS").is_err();
    let c = Ctx {
        prop: prop.to_string(),
        tier,
        seed,
        solvers: Solvers::new(cross, save),
        obligations: vec![],
        findings: vec![],
        inconclusive: vec![],
        paths: 0,
        decisions: 0,
        hashes: 0,
        samples: vec![],
        functions: vec![],
        bounds: vec![],
        assumptions: vec![],
        stubs: vec![
            "bls12_381 -> symbolic-term / discrete-log stand-in (symex/shim/bls12_381)".into(),
            "sha3 -> recording ideal hash (symex/shim/sha3)".into(),
            "rand -> seeded deterministic stream; every draw is a fresh variable".into(),
        ],
        t0: Instant::now(),
        solver_ms: 0.0,
        retries: 0,
        traces_validated: 0,
        notes: vec![],
        quiet: std::env::var("VX_VERBOSE").is_err(),
    };
    CTX.with(|x| *x.borrow_mut() = Some(c));
}

/// current path condition (decisions with their outcomes) as formulas
pub fn pc() -> Vec<F> {
    sx::with(|a| a.decisions.iter().map(|d| d.cond.clone().with_outcome(d.outcome)).collect())
}
pub fn pc_upto(n: usize) -> Vec<F> {
    sx::with(|a| a.decisions.iter().take(n).map(|d| d.cond.clone().with_outcome(d.outcome)).collect())
}
pub fn axioms() -> Vec<F> {
    sx::with(|a| a.axioms.iter().map(|(f, _)| f.clone()).collect())
}
/// axioms + full path condition
pub fn hyps() -> Vec<F> {
    let mut h = axioms();
    h.extend(pc());
    h
}

#[derive(Clone, Debug, PartialEq)]
pub enum Tri {
    Yes,
    No(HashMap<String, String>),
    Unknown(String),
}

fn record(name: &str, kind: &'static str, verdict: &str, st: &solver::QueryStat) {
    let answer = match &st.answer {
        Answer::Sat(_) => "sat".to_string(),
        Answer::Unsat => "unsat".to_string(),
        Answer::Unknown(s) => format!("unknown: {}", s),
    };
    ctx(|c| {
        c.solver_ms += st.ms;
        if !c.quiet {
            eprintln!("  [{}] {:<7} {:<12} {:>8.1} ms  {:>7} B  {}", c.prop, kind, verdict, st.ms, st.bytes, name);
        }
        c.obligations.push(ObRecord {
            name: name.to_string(),
            kind,
            verdict: verdict.to_string(),
            answer,
            ms: st.ms,
            bytes: st.bytes,
            nvars: st.nvars,
            nasserts: st.nasserts,
            cross: st.cross.clone(),
        });
    });
}

fn cross_disagrees(st: &solver::QueryStat) -> Option<String> {
    let main = match &st.answer {
        Answer::Sat(_) => "sat",
        Answer::Unsat => "unsat",
        _ => return None,
    };
    for (n, r) in &st.cross {
        if (r == "sat" || r == "unsat") && r != main {
            return Some(format!("{} says {} but {} says {}", "z3-5.1.0", main, n, r));
        }
    }
    None
}

/// Re-check a solver model natively: every assertion must evaluate to true in exact F_q arithmetic.
pub fn model_checks(asserts: &[F], m: &HashMap<String, String>) -> bool {
    let mut mm = HashMap::new();
    for (k, v) in m {
        if let Some(i) = sx::var_index(k) {
            if v.starts_with('-') {
                return false;
            }
            mm.insert(i, fq::from_dec(v));
        }
    }
    sx::eval_with(&mm, asserts).iter().all(|b| *b)
}

/// One solver call; when the answer is `unknown` because the (wall-clock) limit ran out and the limit is the tier's default,
/// the query is repeated once with five times the limit: a loaded machine must not turn a 2-second proof into an
/// inconclusive check.  Documentation queries with a deliberately short limit (`with_timeout`) are not repeated.
fn check_retry(name: &str, asserts: &[F], to: u64, want_model: bool) -> solver::QueryStat {
    let st = ctx(|c| c.solvers.check(name, asserts, to, want_model));
    let deliberate = TIMEOUT_OVERRIDE.with(|t| t.get()).is_some();
    if matches!(st.answer, Answer::Unknown(_)) && !deliberate && st.ms >= 0.8 * to as f64 && to > 3_000 {
        ctx(|c| c.retries += 1);
        let mut st2 = ctx(|c| c.solvers.check(&format!("{} [retry, {} s limit]", name, 5 * to / 1000), asserts, 5 * to, want_model));
        st2.ms += st.ms;
        return st2;
    }
    st
}

/// VALID: do `hyps` imply `goal` for every assignment?  (unsat of hyps ∧ ¬goal)
pub fn valid(name: &str, hyps: &[F], goal: &F) -> Tri {
    if *goal == F::True {
        // syntactically identical terms: nothing to ask the solver; still recorded
        ctx(|c| {
            c.obligations.push(ObRecord {
                name: name.into(),
                kind: "VALID",
                verdict: "held".into(),
                answer: "trivial (identical terms)".into(),
                ms: 0.0,
                bytes: 0,
                nvars: 0,
                nasserts: 0,
                cross: vec![],
            })
        });
        return Tri::Yes;
    }
    let gv = solver::formula_vars(goal);
    // a goal without variables (e.g. "this path is infeasible") is about the whole system: no slicing
    let mut asserts = if gv.is_empty() { hyps.to_vec() } else { solver::slice(hyps, &gv) };
    asserts.push(goal.clone().not());
    let to = timeout_ms();
    // constructive shortcut: if the shadow assignment satisfies the hypotheses and falsifies the goal it IS a
    // counterexample; the solver only has to confirm the ground system (ms instead of a model search)
    if hyps.iter().all(sx::eval) && !sx::eval(goal) {
        let m = shadow_model(&asserts);
        let st2 = ctx(|c| {
            c.solvers
                .check_pinned(&format!("{} [shadow counterexample]", name), &asserts, to, false, Some(&HashMap::new()))
        });
        if let Answer::Sat(_) = st2.answer {
            record(name, "VALID", "violated", &st2);
            return Tri::No(m);
        }
    }
    // constructive search over the prover-controlled atoms registered by the harness (affine kernel direction): tried
    // first, so that a counterexample - when one exists in that space - differs from the honest run only in those atoms
    // and can be replayed against the real crates
    let xs = CEX_UNKNOWNS.with(|x| x.borrow().clone());
    if !xs.is_empty() {
        if let Some(cand) = crate::affine::counterexample(hyps, goal, &xs) {
            let mut values: HashMap<u32, fq::U256> = HashMap::new();
            let mut model = shadow_model(&asserts);
            for (k, v) in &cand {
                values.insert(*k, *v);
                let nm = sx::with(|a| a.vars[*k as usize].name.clone());
                model.insert(nm, fq::to_dec(v));
            }
            let st3 = ctx(|c| {
                c.solvers
                    .check_pinned(&format!("{} [constructed counterexample]", name), &asserts, to, false, Some(&values))
            });
            if let Answer::Sat(_) = st3.answer {
                record(name, "VALID", "violated", &st3);
                return Tri::No(model);
            }
        }
    }
    let t_dbg = Instant::now();
    let st = check_retry(name, &asserts, to, true);
    if std::env::var("VX_TIMING").is_ok() {
        eprintln!("    valid(): solver call took {:?} (reported {:.1} ms)", t_dbg.elapsed(), st.ms);
    }
    if let Some(d) = cross_disagrees(&st) {
        record(name, "VALID", "inconclusive", &st);
        ctx(|c| c.inconclusive.push(format!("{}: solver disagreement: {}", name, d)));
        return Tri::Unknown(d);
    }
    match &st.answer {
        Answer::Unsat => {
            record(name, "VALID", "held", &st);
            Tri::Yes
        }
        Answer::Sat(m) => {
            let t_dbg = Instant::now();
            let mc = model_checks(&asserts, m);
            if std::env::var("VX_TIMING").is_ok() {
                eprintln!("    valid(): native model check took {:?}", t_dbg.elapsed());
            }
            if !mc {
                record(name, "VALID", "inconclusive", &st);
                ctx(|c| {
                    c.inconclusive.push(format!(
                        "{}: the solver's counterexample does not check under native F_q evaluation (encoding or solver error)",
                        name
                    ))
                });
                return Tri::Unknown("model does not check natively".into());
            }
            record(name, "VALID", "violated", &st);
            Tri::No(m.clone())
        }
        Answer::Unknown(s) => {
            // the shadow assignment may itself be a counterexample
            let shadow_cex = hyps.iter().all(sx::eval) && !sx::eval(goal);
            if shadow_cex {
                let m = shadow_model(&asserts);
                let st2 = ctx(|c| {
                    c.solvers
                        .check_pinned(&format!("{} [pinned shadow counterexample]", name), &asserts, to, false, Some(&HashMap::new()))
                });
                if st2.answer == Answer::Unsat || matches!(st2.answer, Answer::Unknown(_)) {
                    record(name, "VALID", "inconclusive", &st2);
                    ctx(|c| c.inconclusive.push(format!("{}: shadow counterexample not confirmed by solver", name)));
                    return Tri::Unknown("shadow cex unconfirmed".into());
                }
                record(name, "VALID", "violated", &st2);
                return Tri::No(m);
            }
            record(name, "VALID", "inconclusive", &st);
            ctx(|c| c.inconclusive.push(format!("{}: solver answered {}", name, s)));
            Tri::Unknown(s.clone())
        }
    }
}

thread_local! { static CEX_UNKNOWNS: RefCell<std::collections::HashSet<u32>> = RefCell::new(Default::default()); }
/// Register the prover-controlled atoms (variables) over which a counterexample may be constructed when the solver
/// cannot decide an accept-implies-relation obligation.
pub fn set_cex_unknowns(terms: &[sx::Tid]) {
    let vs: std::collections::HashSet<u32> = terms
        .iter()
        .filter_map(|t| if let sx::Node::Var(v) = sx::node_of(*t) { Some(v) } else { None })
        .collect();
    CEX_UNKNOWNS.with(|x| *x.borrow_mut() = vs);
}

fn shadow_model(asserts: &[F]) -> HashMap<String, String> {
    let mut vs = BTreeSet::new();
    for f in asserts {
        vs.extend(solver::formula_vars(f));
    }
    sx::with(|a| {
        vs.iter()
            .map(|v| (a.vars[*v as usize].name.clone(), fq::to_dec(&a.vars[*v as usize].shadow)))
            .collect()
    })
}

/// Candidate-model query: is `hyps ∧ extra` satisfied by the shadow assignment with the given variables
/// bumped by +1 (mod q)?  The candidate is first evaluated natively, then *confirmed by the solver* on the
/// pinned system (every variable fixed), which takes milliseconds where a model search may not finish.
/// Returns Some(model) if the candidate is a model.
pub fn candidate_model(name: &str, kind: &'static str, hyps: &[F], extra: &F, bump: &[sx::Tid]) -> Option<HashMap<String, String>> {
    let mut overrides: HashMap<u32, fq::U256> = HashMap::new();
    for t in bump {
        if let sx::Node::Var(v) = sx::node_of(*t) {
            let sh = sx::with(|a| a.vars[v as usize].shadow);
            overrides.insert(v, fq::add(&fq::reduce(&sh), &fq::ONE));
        }
    }
    candidate_model_with(name, kind, hyps, extra, overrides)
}
/// same, with explicit replacement values for some variables (everything else keeps its shadow value)
pub fn candidate_model_with(name: &str, kind: &'static str, hyps: &[F], extra: &F, overrides: HashMap<u32, fq::U256>) -> Option<HashMap<String, String>> {
    let gv = solver::formula_vars(extra);
    let mut asserts = if gv.is_empty() { hyps.to_vec() } else { solver::slice(hyps, &gv) };
    asserts.push(extra.clone());
    if !sx::eval_with(&overrides, &asserts).iter().all(|b| *b) {
        return None;
    }
    // ground system for the solver: every variable defined to its candidate value
    let mut vs = BTreeSet::new();
    for f in &asserts {
        vs.extend(solver::formula_vars(f));
    }
    let mut model = HashMap::new();
    let mut values: HashMap<u32, fq::U256> = HashMap::new();
    for v in vs {
        let (sh, vname) = sx::with(|a| (a.vars[v as usize].shadow, a.vars[v as usize].name.clone()));
        let val = overrides.get(&v).copied().unwrap_or(sh);
        model.insert(vname, fq::to_dec(&val));
        values.insert(v, val);
    }
    let to = timeout_ms();
    let st = ctx(|c| c.solvers.check_pinned(name, &asserts, to, false, Some(&values)));
    match &st.answer {
        Answer::Sat(_) => {
            record(name, kind, "sat", &st);
            Some(model)
        }
        _ => {
            record(name, kind, "inconclusive", &st);
            ctx(|c| {
                c.inconclusive.push(format!(
                    "{}: native evaluation says the candidate is a model, the solver does not confirm it",
                    name
                ))
            });
            None
        }
    }
}

/// WITNESS: is `hyps ∧ extra` satisfiable?  Tries the shadow assignment first (constructive witness,
/// confirmed by the solver on the pinned system), falls back to solver search.
pub fn witness(name: &str, hyps: &[F], extra: &F) -> Tri {
    let mut all = hyps.to_vec();
    all.push(extra.clone());
    let to = timeout_ms();
    if all.iter().all(sx::eval) {
        let gv = solver::formula_vars(extra);
        let mut asserts = if gv.is_empty() { hyps.to_vec() } else { solver::slice(hyps, &gv) };
        asserts.push(extra.clone());
        let st = ctx(|c| c.solvers.check_pinned(name, &asserts, to, false, Some(&HashMap::new())));
        return match &st.answer {
            Answer::Sat(_) => {
                record(name, "WITNESS", "held", &st);
                Tri::Yes
            }
            Answer::Unsat => {
                record(name, "WITNESS", "inconclusive", &st);
                ctx(|c| c.inconclusive.push(format!("{}: native shadow evaluation and solver disagree", name)));
                Tri::Unknown("shadow/solver disagreement".into())
            }
            Answer::Unknown(s) => {
                record(name, "WITNESS", "inconclusive", &st);
                ctx(|c| c.inconclusive.push(format!("{}: {}", name, s)));
                Tri::Unknown(s.clone())
            }
        };
    }
    let st = check_retry(name, &all, to, true);
    match &st.answer {
        Answer::Sat(_) => {
            record(name, "WITNESS", "held", &st);
            Tri::Yes
        }
        Answer::Unsat => {
            record(name, "WITNESS", "violated", &st);
            Tri::No(HashMap::new())
        }
        Answer::Unknown(s) => {
            record(name, "WITNESS", "inconclusive", &st);
            ctx(|c| c.inconclusive.push(format!("{}: {}", name, s)));
            Tri::Unknown(s.clone())
        }
    }
}

/// SAT query on a sliced system with model (used for "is this atom unbound?" style questions where a
/// model *is* the counterexample).  Returns Yes(sat)/No(unsat).
pub fn satisfiable(name: &str, kind: &'static str, hyps: &[F], extra: &F) -> (Tri, Option<HashMap<String, String>>) {
    satisfiable_opt(name, kind, hyps, extra, true)
}
/// `fatal = false`: an unknown answer is recorded but does not make the check inconclusive (documentation-only queries)
pub fn satisfiable_opt(name: &str, kind: &'static str, hyps: &[F], extra: &F, fatal: bool) -> (Tri, Option<HashMap<String, String>>) {
    let gv = solver::formula_vars(extra);
    let mut asserts = if gv.is_empty() { hyps.to_vec() } else { solver::slice(hyps, &gv) };
    asserts.push(extra.clone());
    let to = timeout_ms();
    let st = if fatal { check_retry(name, &asserts, to, true) } else { ctx(|c| c.solvers.check(name, &asserts, to, true)) };
    if let Some(d) = cross_disagrees(&st) {
        record(name, kind, "inconclusive", &st);
        ctx(|c| c.inconclusive.push(format!("{}: solver disagreement: {}", name, d)));
        return (Tri::Unknown(d), None);
    }
    match &st.answer {
        Answer::Sat(m) => {
            if !model_checks(&asserts, m) {
                record(name, kind, "inconclusive", &st);
                ctx(|c| {
                    c.inconclusive
                        .push(format!("{}: the solver's model does not check under native F_q evaluation", name))
                });
                return (Tri::Unknown("model does not check natively".into()), None);
            }
            record(name, kind, "sat", &st);
            (Tri::Yes, Some(m.clone()))
        }
        Answer::Unsat => {
            record(name, kind, "unsat", &st);
            (Tri::No(HashMap::new()), None)
        }
        Answer::Unknown(s) => {
            if fatal {
                record(name, kind, "inconclusive", &st);
                ctx(|c| c.inconclusive.push(format!("{}: {}", name, s)));
            } else {
                record(name, kind, "unknown(doc)", &st);
            }
            (Tri::Unknown(s.clone()), None)
        }
    }
}

/// convenience: goal must be valid under axioms + current pc; otherwise a finding with `key`
pub fn prove(name: &str, key: &str, goal: &F) -> bool {
    let h = hyps();
    prove_under(name, key, &h, goal)
}
pub fn prove_under(name: &str, key: &str, hyps: &[F], goal: &F) -> bool {
    match valid(name, hyps, goal) {
        Tri::Yes => true,
        Tri::No(m) => {
            finding(
                key,
                &format!("obligation '{}' has a counterexample", name),
                Some(m),
                json!({"kind": "model", "obligation": name, "natively_rechecked": true}),
            );
            false
        }
        Tri::Unknown(_) => false,
    }
}

pub fn finding(key: &str, detail: &str, model: Option<HashMap<String, String>>, replay: Value) {
    ctx(|c| {
        if c.findings.iter().any(|f| f.key == key) {
            return;
        }
        if !c.quiet {
            eprintln!("  [{}] FINDING {} :: {}", c.prop, key, detail);
        }
        c.findings.push(Finding {
            key: key.to_string(),
            detail: detail.to_string(),
            model,
            replay,
        });
    })
}
pub fn inconclusive(msg: &str) {
    ctx(|c| c.inconclusive.push(msg.to_string()))
}
pub fn note(msg: &str) {
    ctx(|c| c.notes.push(msg.to_string()))
}
pub fn sample(v: Value) {
    ctx(|c| {
        if c.samples.len() < 12 {
            c.samples.push(v)
        }
    })
}
/// call at the end of every executed path
pub fn path_done() {
    let (d, h, um, mis) = sx::with(|a| {
        let r = (a.decisions.len(), a.hashes.len(), a.unmodelled_words, a.misaligned_pairs);
        a.unmodelled_words = 0;
        a.misaligned_pairs = 0;
        r
    });
    ctx(|c| {
        c.paths += 1;
        c.decisions += d;
        c.hashes += h;
        if um > 0 {
            let m = format!("{} word(s) handed to Scalar::from_raw contain pieces of a 256-bit blob image that are not an 8-byte window of it: the stand-in cannot follow this byte manipulation", um);
            if !c.inconclusive.contains(&m) {
                c.inconclusive.push(m);
            }
        }
        if mis > 0 {
            let m = "some transcript pairs of equal length had differently aligned items and were treated as unequal (ideal-hash axiom not instantiated for them)".to_string();
            if !c.notes.contains(&m) {
                c.notes.push(m);
            }
        }
    })
}
pub fn functions(fs: &[&str]) {
    ctx(|c| {
        for f in fs {
            if !c.functions.iter().any(|x| x == f) {
                c.functions.push(f.to_string())
            }
        }
    })
}
pub fn bound(b: &str) {
    ctx(|c| {
        if !c.bounds.iter().any(|x| x == b) {
            c.bounds.push(b.to_string())
        }
    })
}
pub fn assumption(b: &str) {
    ctx(|c| {
        if !c.assumptions.iter().any(|x| x == b) {
            c.assumptions.push(b.to_string())
        }
    })
}

/// describe a formula briefly for samples
pub fn show(f: &F) -> String {
    sx::with(|a| {
        let s = solver::smt_formula(a, f);
        if s.len() > 300 {
            format!("{}…", &s[..300])
        } else {
            s
        }
    })
}

/// A hand-written SMT-LIB2 problem (used for the pure integer obligations, e.g. "nine base-128 digits
/// cannot exceed 2^63-1"): expected `unsat`.
pub fn raw_unsat(name: &str, key: &str, body: &str) -> bool {
    let to = timeout_ms();
    let script = format!("(reset)\n(set-option :timeout {})\n{}\n(check-sat)\n", to, body);
    let t0 = Instant::now();
    let lines = ctx(|c| c.solvers.main.run(&script)).unwrap_or_else(|e| vec![format!("(error \"{}\")", e)]);
    let ms = t0.elapsed().as_secs_f64() * 1000.0;
    let ans = lines.first().cloned().unwrap_or_default();
    let err = lines.iter().any(|l| l.starts_with("(error"));
    let verdict = if err {
        "inconclusive"
    } else if ans == "unsat" {
        "held"
    } else if ans == "sat" {
        "violated"
    } else {
        "inconclusive"
    };
    ctx(|c| {
        c.solver_ms += ms;
        if !c.quiet {
            eprintln!("  [{}] RAW     {:<12} {:>8.1} ms  {:>7} B  {}", c.prop, verdict, ms, script.len(), name);
        }
        c.obligations.push(ObRecord {
            name: name.into(),
            kind: "VALID",
            verdict: verdict.into(),
            answer: ans.clone(),
            ms,
            bytes: script.len(),
            nvars: 0,
            nasserts: 0,
            cross: vec![],
        });
    });
    match verdict {
        "held" => true,
        "violated" => {
            finding(
                key,
                &format!("integer obligation '{}' has a counterexample", name),
                None,
                json!({"kind":"model"}),
            );
            false
        }
        _ => {
            inconclusive(&format!("{}: solver answered '{}'", name, lines.join(" ")));
            false
        }
    }
}

/// Install the consistency oracle: after a path has deviated from the shadow values, every later decision
/// whose outcome is already forced by the recorded path condition takes the forced outcome (one or two small
/// solver queries per decision).  Keeps flipped paths feasible in harnesses whose later decisions depend on
/// the flipped fact.
pub fn consistent_paths(on: bool) {
    if !on {
        sx::set_consistency_oracle(None);
        return;
    }
    sx::set_consistency_oracle(Some(Box::new(|f: &F| {
        let h = hyps();
        let gv = solver::formula_vars(f);
        let base = if gv.is_empty() { h.clone() } else { solver::slice(&h, &gv) };
        let mut a1 = base.clone();
        a1.push(f.clone().not());
        let r1 = ctx(|c| c.solvers.check("consistency", &a1, 3000, false));
        ctx(|c| c.solver_ms += r1.ms);
        if r1.answer == Answer::Unsat {
            return Some(true);
        }
        let mut a2 = base;
        a2.push(f.clone());
        let r2 = ctx(|c| c.solvers.check("consistency", &a2, 3000, false));
        ctx(|c| c.solver_ms += r2.ms);
        if r2.answer == Answer::Unsat {
            return Some(false);
        }
        None
    })));
}

/// "Is `goal` valid under `hyps`?" where the *expected* answer is NO (e.g. "is this message atom equal to a
/// secret for every randomness?").  Returns true when the goal IS valid (the caller reports the finding).
/// A counterexample (usually the shadow assignment, confirmed by the solver) discharges the obligation.
pub fn valid_unexpected(name: &str, hyps: &[F], goal: &F) -> bool {
    let n_before = ctx(|c| c.obligations.len());
    let r = valid(name, hyps, goal);
    // relabel the record: for this kind of obligation a counterexample is the discharge
    ctx(|c| {
        for o in c.obligations[n_before..].iter_mut() {
            o.kind = "NOTVALID";
            o.verdict = match o.verdict.as_str() {
                "violated" => "held".to_string(),
                "held" => "violated".to_string(),
                x => x.to_string(),
            };
        }
    });
    matches!(r, Tri::Yes)
}

//! Wire layout discovery: a serde `Serializer` that produces exactly bincode's (default, fixint, LE)
//! byte image *and* remembers which struct field every byte belongs to.  Used to enumerate the
//! atoms (scalars / group elements / digests) of any serialisable value of the repo by name, from the
//! current tree's own `Serialize` impls, and to build fully symbolic wire images.
use bls12_381::fq::U256;
use bls12_381::symex::{self as sx, K_DIGEST, K_G1, K_G2, K_SCALAR, MAGIC};
use serde::ser::Serialize;

pub use crate::layout::*;

#[derive(Clone, Debug)]
pub struct Atom {
    pub path: String,
    pub off: usize,
    pub width: usize,
    pub kind: u8,
    /// term id (scalars / elements) or var index (digests)
    pub id: u32,
}
impl Atom {
    pub fn is_digest(&self) -> bool {
        self.kind == K_DIGEST
    }
    /// term of the atom (digest atoms: the blob var's node)
    pub fn term(&self) -> sx::Tid {
        if self.kind == K_DIGEST {
            sx::var_node(self.id)
        } else {
            self.id
        }
    }
    pub fn shadow(&self) -> U256 {
        if self.kind == K_DIGEST {
            sx::with(|a| a.vars[self.id as usize].shadow)
        } else {
            sx::shadow_of(self.id)
        }
    }
    pub fn kind_name(&self) -> &'static str {
        match self.kind {
            K_SCALAR => "scalar",
            K_G1 => "G1",
            K_G2 => "G2",
            K_DIGEST => "bytes32",
            _ => "other",
        }
    }
}

pub fn atoms_of_layout(l: &Layout) -> Vec<Atom> {
    let mut out = vec![];
    for f in &l.fields {
        if f.kind == Kind::Bytes && ((f.len >= sx::TOKEN_LEN && l.bytes[f.off..f.off + 8] == MAGIC) || (f.len == 32 && sx::parse_blob(&l.bytes[f.off..f.off + 32]).is_some())) {
            let (kind, id, w) = sx::untoken(&l.bytes[f.off..f.off + f.len]).unwrap();
            assert_eq!(w, f.len, "token width vs field width at {}", f.path);
            out.push(Atom { path: f.path.clone(), off: f.off, width: w, kind, id });
        }
    }
    out
}
pub fn atoms_of<T: Serialize>(v: &T) -> Vec<Atom> {
    atoms_of_layout(&layout(v))
}

fn sanitize(s: &str) -> String {
    s.chars().map(|c| if c.is_ascii_alphanumeric() || c == '_' || c == '.' { c } else { '_' }).collect()
}

/// Replace every atom of the wire image by a fresh variable of the same kind whose shadow value is
/// the original atom's shadow value.  Returns the new image and the new atoms (same paths).
pub fn symbolize_layout(l: &Layout, tag: &str) -> (Vec<u8>, Vec<Atom>) {
    let mut bytes = l.bytes.clone();
    let mut out = vec![];
    for a in atoms_of_layout(l) {
        let name = sanitize(&format!("{}.{}", tag, a.path));
        let (kind, id) = match a.kind {
            K_DIGEST => (K_DIGEST, sx::fresh_blob(&name, a.shadow())),
            k @ (K_SCALAR | K_G1 | K_G2) => (k, sx::fresh_scalar(&name, a.shadow())),
            k => (k, a.id),
        };
        sx::write_token(&mut bytes[a.off..a.off + a.width], kind, id);
        out.push(Atom { path: a.path.clone(), off: a.off, width: a.width, kind, id });
    }
    (bytes, out)
}

/// honest value -> fully symbolic value of the same type, decoded through the type's real `Deserialize`
pub fn symbolize<T: Serialize + serde::de::DeserializeOwned>(v: &T, tag: &str) -> (T, Vec<Atom>, Vec<u8>) {
    let l = layout(v);
    let (bytes, atoms) = symbolize_layout(&l, tag);
    let t: T = bincode::deserialize(&bytes).unwrap_or_else(|e| panic!("symbolic image of {} does not decode: {}", tag, e));
    (t, atoms, bytes)
}

pub fn find<'a>(atoms: &'a [Atom], path: &str) -> &'a Atom {
    atoms.iter().find(|a| a.path == path).unwrap_or_else(|| panic!("no atom {} in {:?}", path, atoms.iter().map(|a| &a.path).collect::<Vec<_>>()))
}

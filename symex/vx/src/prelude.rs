//! Small helpers shared by the property harnesses.
pub use crate::atoms::{self, Atom};
pub use crate::eng::{self, Tier, Tri};
pub use crate::explore::{explore, PathInfo};
pub use crate::rng::{OnDemandZeroRng, SeedRng, ZeroWindowRng};
pub use bls12_381::fq::{self, U256};
pub use bls12_381::symex::{self as sx, DrawMode, Node, Tid, F};
pub use bls12_381::{G1Affine, G1Projective, G2Affine, G2Projective, Gt, Scalar};
pub use ff::Field;
pub use group::{Curve, Group, GroupEncoding};
pub use serde_json::json;
pub use zkchannels_crypto::{
    pedersen::{Commitment, PedersenParameters, ToPedersenParameters},
    pointcheval_sanders::{BlindedMessage, BlindedSignature, KeyPair, PublicKey, Signature, VerifiedBlindedMessage},
    proofs::*,
    BlindingFactor, Message,
};

use std::cell::Cell;
thread_local! { static CTR: Cell<u64> = Cell::new(0); }

fn next_shadow() -> U256 {
    let c = CTR.with(|c| {
        let v = c.get();
        c.set(v + 1);
        v
    });
    let seed = sx::with(|a| a.seed);
    sx::prf(seed, c, b"harness-var")
}

/// fresh symbolic scalar (pseudo-random shadow value)
pub fn sym_scalar(name: &str) -> Scalar {
    Scalar::from_term(sx::fresh_scalar(name, next_shadow()))
}
pub fn sym_scalars<const N: usize>(name: &str) -> [Scalar; N] {
    let mut v = [Scalar::zero(); N];
    for (i, x) in v.iter_mut().enumerate() {
        *x = sym_scalar(&format!("{}{}", name, i));
    }
    v
}
pub trait SymGroup: Group<Scalar = Scalar> + Copy {
    fn sym(name: &str) -> Self;
    fn dlog(&self) -> Scalar;
    fn from_dlog(s: Scalar) -> Self;
    const GNAME: &'static str;
}
impl SymGroup for G1Projective {
    fn sym(name: &str) -> Self {
        G1Projective(sym_scalar(name))
    }
    fn dlog(&self) -> Scalar {
        self.0
    }
    fn from_dlog(s: Scalar) -> Self {
        G1Projective(s)
    }
    const GNAME: &'static str = "G1";
}
impl SymGroup for G2Projective {
    fn sym(name: &str) -> Self {
        G2Projective(sym_scalar(name))
    }
    fn dlog(&self) -> Scalar {
        self.0
    }
    fn from_dlog(s: Scalar) -> Self {
        G2Projective(s)
    }
    const GNAME: &'static str = "G2";
}
pub fn sym_elems<G: SymGroup, const N: usize>(name: &str) -> [G; N] {
    let mut v = [G::identity(); N];
    for (i, x) in v.iter_mut().enumerate() {
        *x = G::sym(&format!("{}{}", name, i));
    }
    v
}

/// values whose only constructor is crate-private are built through their real `Deserialize`
pub fn bf_of(s: Scalar) -> BlindingFactor {
    bincode::deserialize(&s.to_bytes()).expect("BlindingFactor from scalar token")
}
pub fn commitment_of<G: SymGroup + GroupEncoding + zkchannels_crypto::SerializeElement>(g: G) -> Commitment<G> {
    bincode::deserialize(g.to_bytes().as_ref()).expect("Commitment from element token")
}

/// A fully symbolic challenge: the digest of a transcript consisting of one fresh 256-bit blob.
pub fn sym_challenge(name: &str) -> Challenge {
    let b = sx::fresh_blob(&format!("{}_seed", name), next_shadow());
    let tok: [u8; 32] = sx::token::<32>(sx::K_DIGEST, b);
    ChallengeBuilder::new().with_bytes(tok).finish()
}

pub fn eq(a: Scalar, b: Scalar) -> F {
    a.eq_f(&b)
}
pub fn ne(a: Scalar, b: Scalar) -> F {
    a.eq_f(&b).not()
}
pub fn nz(a: Scalar) -> F {
    a.eq_f(&Scalar::zero()).not()
}
pub fn is_z(a: Scalar) -> F {
    a.eq_f(&Scalar::zero())
}

/// last recorded decision
pub fn last_decision() -> sx::Decision {
    sx::with(|a| a.decisions.last().cloned().expect("no decision recorded"))
}
pub fn decisions_since(n: usize) -> Vec<sx::Decision> {
    sx::with(|a| a.decisions[n..].to_vec())
}
pub fn lattice_u64() -> Vec<u64> {
    vec![0, 1, 2, 127, 128, 1 << 31, 1 << 32, 1 << 62, (1 << 63) - 2, (1 << 63) - 1]
}

/// Uniqueness argument `gen * (a - b) == 0  /\  gen != 0  ==>  a == b`, posed to the solver under `hyps`
/// (which must entail the product equation), with the zero-product lemma instance for that product;
/// plus the vacuity twin: with `gen == 0` the two values may differ (must be satisfiable).
pub fn unique_under(name: &str, key: &str, hyps: &[F], gen: Option<Scalar>, a: Scalar, b: Scalar) -> bool {
    let mut h = hyps.to_vec();
    if let Some(gen) = gen {
        h.push(nz(gen));
        let prod = gen * (a - b);
        h.push(F::iff(is_z(prod), F::or(vec![is_z(gen), is_z(a - b)])));
    }
    let ok = eng::prove_under(name, key, &h, &eq(a, b));
    if let Some(gen) = gen {
        let mut h0 = hyps.to_vec();
        h0.push(is_z(gen));
        // documentation twin (non-fatal): sat = the exceptional case is real; unsat = the hypotheses already
        // entail the non-degeneracy (e.g. key validation), so it was not an extra assumption
        let _ = eng::with_timeout(2000, || eng::satisfiable_opt(&format!("twin[{}]: degenerate factor frees the value", name), "TWIN", &h0, &ne(a, b), false));
    }
    ok
}

pub fn decode<T: serde::de::DeserializeOwned>(bytes: &[u8]) -> Option<T> {
    bincode::deserialize(bytes).ok()
}

/// replace one atom of a wire image by a fresh variable of the same kind; returns the new atom's scalar
pub fn perturb(bytes: &mut [u8], atom: &Atom, name: &str) -> Scalar {
    let t = sx::fresh_scalar(name, next_shadow());
    sx::write_token(&mut bytes[atom.off..atom.off + atom.width], atom.kind, t);
    Scalar::from_term(t)
}
pub fn atom_scalar(at: &[Atom], path: &str) -> Scalar {
    Scalar::from_term(atoms::find(at, path).term())
}
pub fn tf(b: bool) -> F {
    if b {
        F::True
    } else {
        F::False
    }
}

/// Run `a` (following the shadow values), then run `b` forced onto exactly the same decision outcomes.
/// Used to obtain "both calls took the accepting path" as a path condition.
pub fn same_path<R1, R2>(a: impl FnOnce() -> R1, b: impl FnOnce() -> R2) -> (R1, R2) {
    let n0 = sx::n_decisions();
    let ra = a();
    let seq: Vec<bool> = decisions_since(n0).iter().map(|d| d.outcome).collect();
    sx::force_seq(seq);
    let rb = b();
    if sx::force_pending() != 0 {
        // the second call compared less than the first (e.g. a cached verdict): drop the unused outcomes; the caller's
        // obligations then lack the corresponding hypotheses and fail, which is the right verdict
        sx::force_seq(vec![]);
        eng::note("same_path: the second call made fewer comparisons than the first");
    }
    (ra, rb)
}

/// Vacuity guard for an explored path: the unflipped path must have a native witness confirmed by the
/// solver; a flipped path is classified by a (non-fatal) satisfiability query.  Returns false when the
/// path is *known* infeasible.
pub fn path_feasible(name: &str, p: &PathInfo) -> bool {
    if p.flips.is_empty() {
        if !matches!(eng::witness(&format!("{}: shadow path has a witness", name), &eng::hyps(), &F::True), Tri::Yes) {
            eng::inconclusive(&format!("{}: the shadow path has no confirmed witness (vacuous harness)", name));
        }
        return true;
    }
    let (r, _) = eng::with_timeout(3000, || eng::satisfiable_opt(&format!("{}: flipped path {:?} feasible?", name, p.flips), "TWIN", &eng::hyps(), &F::True, false));
    !matches!(r, Tri::No(_))
}

/// Explore every path of `body` (all decisions labelled `label` are flipped, up to `d` flips) and require
/// that on every *feasible* path the result equals `expect`: a path with another result must have an
/// unsatisfiable path condition.
pub fn forced_result(name: &str, key: &str, mode: DrawMode, seed: u64, label: &str, d: usize, expect: bool, body: impl FnMut() -> bool) -> usize {
    forced_result_labels(name, key, mode, seed, &[label], d, expect, body)
}
/// like `forced_result`, flipping the decisions of several labels (e.g. prover-side branches and verifier checks)
pub fn forced_result_labels(name: &str, key: &str, mode: DrawMode, seed: u64, labels: &[&str], d: usize, expect: bool, mut body: impl FnMut() -> bool) -> usize {
    let st = explore(mode, seed, d, 256, labels, |p| {
        let res = body();
        if res != expect {
            if p.flips.is_empty() {
                eng::finding(key, &format!("{}: result is {} on the shadow path, expected {} for every value", name, res, expect), None, json!({"kind":"none"}));
            } else {
                eng::prove(&format!("{}: path {:?} with result {} is infeasible", name, p.flips, res), key, &F::False);
            }
        } else if p.flips.is_empty() {
            path_feasible(name, p);
        }
    });
    for (p, m) in st.panics {
        eng::inconclusive(&format!("{} panicked on path {:?}: {}", name, p, m));
    }
    st.paths
}

/// "Is atom y (of instance B) free given the condition `same`?"  First the constructive candidate
/// (B's atom bumped by one, everything else at its shadow value); if that is not a model, the general
/// query must come back unsat for the atom to count as bound.
/// Returns Some(model) when the atom is unbound.
pub fn unbound_query(name: &str, hyps: &[F], same: &F, x: Scalar, y: Scalar) -> Option<std::collections::HashMap<String, String>> {
    let q = F::and(vec![same.clone(), ne(x, y)]);
    if let Some(m) = eng::candidate_model(name, "REFUTE", hyps, &q, &[y.term()]) {
        return Some(m);
    }
    match eng::satisfiable(name, "REFUTE", hyps, &q) {
        (Tri::Yes, m) => m,
        _ => None,
    }
}
/// documentation query for atoms that are *expected* to be free (response scalars): candidate only
pub fn expect_free(name: &str, hyps: &[F], same: &F, x: Scalar, y: Scalar) {
    let q = F::and(vec![same.clone(), ne(x, y)]);
    if eng::candidate_model(name, "TWIN", hyps, &q, &[y.term()]).is_none() {
        eng::note(&format!("{}: expected to be free, but the candidate is not a model", name));
    }
}

/// Decompose a term as an affine form  sum_i coeff_i * var_i + const  (None if it is not affine).
pub fn affine(t: Tid) -> Option<(std::collections::BTreeMap<u32, U256>, U256)> {
    use std::collections::BTreeMap;
    fn go(t: Tid) -> Option<(BTreeMap<u32, U256>, U256)> {
        match sx::node_of(t) {
            Node::Const(c) => Some((BTreeMap::new(), c)),
            Node::Limb(_, _) => None,
            Node::Var(v) => {
                let mut m = BTreeMap::new();
                m.insert(v, fq::ONE);
                Some((m, fq::ZERO))
            }
            Node::Neg(x) => {
                let (m, c) = go(x)?;
                Some((m.into_iter().map(|(k, v)| (k, fq::neg(&v))).collect(), fq::neg(&c)))
            }
            Node::Add(x, y) | Node::Sub(x, y) => {
                let sub = matches!(sx::node_of(t), Node::Sub(_, _));
                let (mut m, c) = go(x)?;
                let (m2, c2) = go(y)?;
                for (k, v) in m2 {
                    let v = if sub { fq::neg(&v) } else { v };
                    let e = m.entry(k).or_insert(fq::ZERO);
                    *e = fq::add(e, &v);
                }
                let c2 = if sub { fq::neg(&c2) } else { c2 };
                Some((m, fq::add(&c, &c2)))
            }
            Node::Mul(x, y) => {
                let (mx, cx) = go(x)?;
                let (my, cy) = go(y)?;
                if mx.is_empty() {
                    Some((my.into_iter().map(|(k, v)| (k, fq::mul(&v, &cx))).collect(), fq::mul(&cx, &cy)))
                } else if my.is_empty() {
                    Some((mx.into_iter().map(|(k, v)| (k, fq::mul(&v, &cy))).collect(), fq::mul(&cx, &cy)))
                } else {
                    None
                }
            }
        }
    }
    go(t)
}
pub fn var_of(s: Scalar) -> Option<u32> {
    match sx::node_of(s.term()) {
        Node::Var(v) => Some(v),
        _ => None,
    }
}

/// Every decision recorded since `n0` under `label` must be *forced* to its recorded outcome by what came
/// before it (axioms + earlier decisions): i.e. the code takes this branch for every value of the symbols.
/// Returns the number of decisions checked.
pub fn all_forced(name: &str, key: &str, n0: usize, label: &str) -> usize {
    let ds = sx::snapshot_decisions();
    let ax = eng::axioms();
    let mut n = 0;
    for (i, d) in ds.iter().enumerate().skip(n0) {
        if sx::label_name(d.label) != label {
            continue;
        }
        n += 1;
        let mut h = ax.clone();
        h.extend(ds[..i].iter().map(|x| x.cond.clone().with_outcome(x.outcome)));
        eng::prove_under(&format!("{}: decision {} forced {}", name, i, d.outcome), key, &h, &d.cond.clone().with_outcome(d.outcome));
    }
    n
}

/// two serialisable values are equal: byte-identical images (identical terms), else atom-wise validity
pub fn same<A: serde::Serialize, B: serde::Serialize>(name: &str, key: &str, a: &A, b: &B) -> bool {
    let (la, lb) = (atoms::layout(a), atoms::layout(b));
    if la.bytes == lb.bytes {
        eng::prove(name, key, &F::True);
        return true;
    }
    if la.bytes.len() != lb.bytes.len() {
        eng::finding(key, &format!("{}: images have different lengths ({} vs {})", name, la.bytes.len(), lb.bytes.len()), None, json!({"kind":"model"}));
        return false;
    }
    let (aa, ab) = (atoms::atoms_of_layout(&la), atoms::atoms_of_layout(&lb));
    let mut mask_a = la.bytes.clone();
    let mut mask_b = lb.bytes.clone();
    for x in aa.iter().chain(ab.iter()) {
        for i in x.off..x.off + x.width {
            mask_a[i] = 0;
            mask_b[i] = 0;
        }
    }
    if aa.len() != ab.len() || mask_a != mask_b {
        eng::finding(key, &format!("{}: the two images differ outside their atoms (integers / layout)", name), None, json!({"kind":"model"}));
        return false;
    }
    let mut ok = true;
    for (x, y) in aa.iter().zip(ab.iter()) {
        if x.kind != y.kind || x.off != y.off {
            eng::finding(key, &format!("{}: atom layout differs at {}", name, x.path), None, json!({"kind":"model"}));
            return false;
        }
        ok &= eng::prove(&format!("{} [{}]", name, x.path), key, &eq(Scalar::from_term(x.term()), Scalar::from_term(y.term())));
    }
    ok
}


/// "Do equal challenge digests force two 32-byte public values (blobs) to be equal?"  Both values are taken to be
/// canonical (< q): the library turns them into scalars, so two byte strings congruent mod q are the same public value.
/// Candidates: the second blob equal to the first with one byte changed (what a slip in the word-wise conversion
/// to a scalar - a dropped, duplicated or misaligned word - would let through); then the general query, which must be unsat.
pub fn blob_binding(name: &str, hyps: &[F], same: &F, a: u32, b: u32) -> Option<std::collections::HashMap<String, String>> {
    let q = F::and(vec![same.clone(), F::BlobEq(a, b).not(), F::BlobLtQ(a), F::BlobLtQ(b)]);
    let sha = sx::with(|ar| ar.vars[a as usize].shadow);
    // make the first value canonical for the candidates: clear its top word's high bits
    let mut base = sha;
    base[3] &= 0x0FFF_FFFF_FFFF_FFFF;
    for j in 0..32 {
        let mut other = base;
        other[j / 8] ^= 1u64 << (8 * (j % 8));
        let mut ov = std::collections::HashMap::new();
        ov.insert(a, base);
        ov.insert(b, other);
        if let Some(m) = eng::candidate_model_with(&format!("{} [candidate: byte {} differs]", name, j), "REFUTE", hyps, &q, ov) {
            return Some(m);
        }
    }
    match eng::satisfiable(name, "REFUTE", hyps, &q) {
        (Tri::Yes, m) => m,
        _ => None,
    }
}

/// Variants of a context byte string that must all give a different `Context`: single-byte changes plus length-only
/// changes (a trailing NUL appended, the last byte dropped) - the latter catch non-injective padding / truncation.
pub fn context_variants(base: &[u8], positions: &[usize]) -> Vec<(String, Vec<u8>)> {
    let mut out = vec![];
    for p in positions {
        if *p < base.len() {
            let mut b = base.to_vec();
            b[*p] ^= 1;
            out.push((format!("context byte {}", p), b));
        }
    }
    let mut b = base.to_vec();
    b.push(0);
    out.push(("context with a trailing NUL appended".to_string(), b));
    if base.len() > 1 {
        out.push(("context with its last byte dropped".to_string(), base[..base.len() - 1].to_vec()));
    }
    out
}

/// Generators that are supposed to be independent random elements must not be the same element by construction: a pair
/// that is the *same term* (or provably equal under the hypotheses) means one was copied from the other - a Pedersen
/// commitment over them is not binding.  Different terms with different shadow values are a witness that they can differ.
pub fn independent_generators(name: &str, key: &str, hyps: &[F], gens: &[(String, Scalar)]) {
    for i in 0..gens.len() {
        for j in (i + 1)..gens.len() {
            let (a, b) = (gens[i].1, gens[j].1);
            let same = a.term() == b.term() || (a.shadow() == b.shadow() && matches!(eng::valid(&format!("{}: {} == {} for every randomness?", name, gens[i].0, gens[j].0), hyps, &eq(a, b)), Tri::Yes));
            if same {
                eng::finding(key, &format!("{}: generators {} and {} are the same element for every randomness stream (commitments over them are not binding)", name, gens[i].0, gens[j].0), None, json!({"kind": "none"}));
            }
        }
    }
    eng::ctx(|c| {
        c.obligations.push(eng::ObRecord { name: format!("{}: {} generators pairwise independent (distinct terms, distinct shadow values)", name, gens.len()), kind: "ENUM", verdict: "held".into(), answer: "structural".into(), ms: 0.0, bytes: 0, nvars: 0, nasserts: 0, cross: vec![] })
    });
}

/// A wire image in which one atom is replaced by a non-canonical scalar / a curve point outside the prime-order group must
/// not decode (the verifiers compute with complete curve arithmetic: a small-order component in a proof element survives
/// the Schnorr equation whenever the challenge is a multiple of its order).  Returns the atom paths that DID decode.
pub fn invalid_encodings_accepted<T: serde::de::DeserializeOwned>(bytes: &[u8], at: &[Atom]) -> Vec<String> {
    let mut accepted = vec![];
    for a in at {
        let bad = match a.kind {
            sx::K_SCALAR => sx::K_BAD_SCALAR,
            sx::K_G1 => sx::K_BAD_G1,
            sx::K_G2 => sx::K_BAD_G2,
            _ => continue,
        };
        let mut b = bytes.to_vec();
        sx::write_token(&mut b[a.off..a.off + a.width], bad, a.id);
        if decode::<T>(&b).is_some() {
            accepted.push(a.path.clone());
        }
    }
    accepted
}

//! Small helpers shared by the property harnesses.
pub use crate::atoms::{self, Atom};
pub use crate::eng::{self, Tier, Tri};
pub use crate::explore::{explore, PathInfo};
pub use crate::rng::{SeedRng, ZeroWindowRng};
pub use bls12_381::fq::{self, U256};
pub use bls12_381::symex::{self as sx, DrawMode, Node, Tid, F};
pub use bls12_381::{G1Affine, G1Projective, G2Affine, G2Projective, Gt, Scalar};
pub use ff::Field;
pub use group::{Curve, Group, GroupEncoding};
pub use serde_json::json;
pub use zkchannels_crypto::{
    pedersen::{Commitment, PedersenParameters, ToPedersenParameters},
    pointcheval_sanders::{BlindedMessage, BlindedSignature, KeyPair, PublicKey, Signature, VerifiedBlindedMessage},
    proofs::*,
    BlindingFactor, Message,
};

use std::cell::Cell;
thread_local! { static CTR: Cell<u64> = Cell::new(0); }

fn next_shadow() -> U256 {
    let c = CTR.with(|c| {
        let v = c.get();
        c.set(v + 1);
        v
    });
    let seed = sx::with(|a| a.seed);
    sx::prf(seed, c, b"harness-var")
}

/// fresh symbolic scalar (pseudo-random shadow value)
pub fn sym_scalar(name: &str) -> Scalar {
    Scalar::from_term(sx::fresh_scalar(name, next_shadow()))
}
pub fn sym_scalars<const N: usize>(name: &str) -> [Scalar; N] {
    let mut v = [Scalar::zero(); N];
    for (i, x) in v.iter_mut().enumerate() {
        *x = sym_scalar(&format!("{}{}", name, i));
    }
    v
}
pub trait SymGroup: Group<Scalar = Scalar> + Copy {
    fn sym(name: &str) -> Self;
    fn dlog(&self) -> Scalar;
    fn from_dlog(s: Scalar) -> Self;
    const GNAME: &'static str;
}
impl SymGroup for G1Projective {
    fn sym(name: &str) -> Self {
        G1Projective(sym_scalar(name))
    }
    fn dlog(&self) -> Scalar {
        self.0
    }
    fn from_dlog(s: Scalar) -> Self {
        G1Projective(s)
    }
    const GNAME: &'static str = "G1";
}
impl SymGroup for G2Projective {
    fn sym(name: &str) -> Self {
        G2Projective(sym_scalar(name))
    }
    fn dlog(&self) -> Scalar {
        self.0
    }
    fn from_dlog(s: Scalar) -> Self {
        G2Projective(s)
    }
    const GNAME: &'static str = "G2";
}
pub fn sym_elems<G: SymGroup, const N: usize>(name: &str) -> [G; N] {
    let mut v = [G::identity(); N];
    for (i, x) in v.iter_mut().enumerate() {
        *x = G::sym(&format!("{}{}", name, i));
    }
    v
}

/// values whose only constructor is crate-private are built through their real `Deserialize`
pub fn bf_of(s: Scalar) -> BlindingFactor {
    bincode::deserialize(&s.to_bytes()).expect("BlindingFactor from scalar token")
}
pub fn commitment_of<G: SymGroup + GroupEncoding + zkchannels_crypto::SerializeElement>(g: G) -> Commitment<G> {
    bincode::deserialize(g.to_bytes().as_ref()).expect("Commitment from element token")
}

/// A fully symbolic challenge: the digest of a transcript consisting of one fresh 256-bit blob.
pub fn sym_challenge(name: &str) -> Challenge {
    let b = sx::fresh_blob(&format!("{}_seed", name), next_shadow());
    let tok: [u8; 32] = sx::token::<32>(sx::K_DIGEST, b);
    ChallengeBuilder::new().with_bytes(tok).finish()
}

pub fn eq(a: Scalar, b: Scalar) -> F {
    a.eq_f(&b)
}
pub fn ne(a: Scalar, b: Scalar) -> F {
    a.eq_f(&b).not()
}
pub fn nz(a: Scalar) -> F {
    a.eq_f(&Scalar::zero()).not()
}
pub fn is_z(a: Scalar) -> F {
    a.eq_f(&Scalar::zero())
}

/// last recorded decision
pub fn last_decision() -> sx::Decision {
    sx::with(|a| a.decisions.last().cloned().expect("no decision recorded"))
}
pub fn decisions_since(n: usize) -> Vec<sx::Decision> {
    sx::with(|a| a.decisions[n..].to_vec())
}
pub fn lattice_u64() -> Vec<u64> {
    vec![0, 1, 2, 127, 128, 1 << 31, 1 << 32, 1 << 62, (1 << 63) - 2, (1 << 63) - 1]
}

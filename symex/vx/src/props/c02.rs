//! C02 — merchant approves payments only for a correct, unspent, in-range state update.
use crate::prelude::*;
use crate::props::c01::{cid_scalar, req_schnorr, z};
use crate::world::*;
use zkabacus_crypto::{Context, CLOSE_SCALAR};

pub fn run(tier: Tier, seed: u64) {
    eng::functions(&[
        "zkabacus_crypto::merchant::Config::allow_payment",
        "zkabacus_crypto::proofs::PayProof::{verify, new}",
        "zkchannels_crypto::proofs::SignatureProof::verify_knowledge_of_signature",
        "zkchannels_crypto::proofs::RangeConstraint::{verify_range_constraint, verify_range_constraint_digits}",
        "zkchannels_crypto::proofs::{CommitmentProof, SignatureRequestProof}::verify_knowledge_of_opening",
        "zkchannels_crypto::proofs::RangeConstraintParameters: ChallengeInput, ChallengeBuilder",
        "zkabacus_crypto::states::CloseStateBlindedSignature::sign",
        "zkabacus_crypto::customer::{Requested::new, complete, Inactive::activate, Ready::start} (honest witness)",
    ]);
    eng::bound("verifier paths with at most d simultaneously failing comparisons (d=1 quick, d=2 thorough; the full 2^K is outside the claim); amounts {7,-7,0} quick + boundary amounts thorough; one channel history (establish, then the payment under test)");
    eng::assumption("random-oracle idealisation; draws non-zero; 'digit in [0,128)' rests on unforgeability of the 128 digit signatures and 'holds a merchant-issued pay token' on PS unforgeability (not posed)");
    let cases: Vec<(u64, u64, i64)> = if tier == Tier::Quick {
        vec![(100, 50, 7), (100, 50, -7)]
    } else {
        vec![(100, 50, 7), (100, 50, -7), (100, 50, 0), (100, 50, 100), (100, 50, -50), ((1u64 << 63) - 1, 0, i64::MAX), (0, (1u64 << 63) - 1, -i64::MAX)]
    };
    for (i, (cbal, mbal, amt)) in cases.iter().enumerate() {
        accept_set(seed, tier, *cbal, *mbal, *amt, i == 0);
        special_soundness(seed, *cbal, *mbal, *amt);
    }
    invalid_wire_elements(seed);
    lying_prover(seed, 100, 50, 7);
    lying_prover(seed, 100, 50, -7);
    if tier == Tier::Thorough {
        lying_prover(seed, (1u64 << 63) - 1, 0, i64::MAX);
        lying_prover(seed.wrapping_add(1), 3, 1000, 3);
    }
    digits_bound();
    crate::props::c12::pay_level(seed, tier);
}

pub struct Pay {
    pub w: World,
    pub rng: SeedRng,
    pub pctx: Context,
    pub nonce: NonceT,
    pub bytes: Vec<u8>,
    pub at: Vec<Atom>,
    pub key: Vec<Atom>,
    pub rkey: Vec<Atom>,
    pub rev: Vec<Atom>,
    pub amt: i64,
}

pub fn amount_scalar(a: i64) -> Scalar {
    if a >= 0 {
        Scalar::from(a as u64)
    } else {
        -Scalar::from(a.unsigned_abs())
    }
}

/// honest establish + start; the pay proof is then made fully symbolic (honest shadow values)
pub fn pay_setup(seed: u64, cbal: u64, mbal: u64, amt: i64) -> Pay {
    let mut rng = SeedRng::new(seed);
    let w = world(&mut rng);
    let ctx = Context::new(b"establish context");
    let pctx = Context::new(b"pay context");
    let cid = channel_id(&w, &mut rng, b"m", b"c");
    let ready = establish(&w, &mut rng, cid, cbal, mbal, &ctx);
    sx::set_label("cust:start");
    let (_started, start) = ready.start(&mut rng, amount(amt), &pctx, &w.cust).ok().expect("payment in range");
    let (bytes, at) = atoms::symbolize_layout(&atoms::layout(&start.pay_proof), "P");
    let key = atoms::atoms_of(w.merchant.signing_keypair());
    let rkey = atoms::atoms_of(w.merchant.range_constraint_parameters());
    let rev = atoms::atoms_of(w.merchant.revocation_commitment_parameters());
    let _ = cid_scalar(&cid);
    Pay { w, rng, pctx, nonce: start.nonce, bytes, at, key, rkey, rev, amt }
}

pub fn cp(at: &[Atom], pfx: &str, what: &str) -> Scalar {
    atom_scalar(at, &format!("{}.{}", pfx, what))
}

/// signature-proof relation of `pfx` under key atoms (g2, x2, y2s) taken from `key` with prefix `kp`
pub fn sigproof_ref(key: &[Atom], kp: &str, at: &[Atom], pfx: &str, n: usize, c: Scalar) -> F {
    let g2 = atom_scalar(key, &format!("{}g2", kp));
    let x2 = atom_scalar(key, &format!("{}x2", kp));
    let mut lhs = g2 * cp(at, pfx, "commitment_proof.blinding_factor_response_scalar");
    for i in 0..n {
        lhs = lhs + atom_scalar(key, &format!("{}y2s.{}", kp, i)) * cp(at, pfx, &format!("commitment_proof.message_response_scalars.{}", i));
    }
    let com = cp(at, pfx, "commitment_proof.commitment");
    let schnorr = eq(lhs, cp(at, pfx, "commitment_proof.scalar_commitment") + c * com);
    let (s1, s2) = (cp(at, pfx, "blinded_signature.sigma1"), cp(at, pfx, "blinded_signature.sigma2"));
    F::and(vec![nz(s1), schnorr, eq(s1 * (x2 + com), s2 * g2)])
}

pub fn pow128(j: usize) -> Scalar {
    let mut p = Scalar::one();
    for _ in 0..j {
        p = p * Scalar::from(128u64);
    }
    p
}

fn pay_reference(p: &Pay, c: Scalar) -> Vec<(String, F)> {
    let at = &p.at;
    let (s, cl, pt) = ("state_proof", "close_state_proof", "old_pay_token_proof");
    let zpt = |i: usize| cp(at, pt, &format!("commitment_proof.message_response_scalars.{}", i));
    let nonce = atom_scalar(&atoms::atoms_of(&p.nonce), "");
    let amt = amount_scalar(p.amt);
    let mut v: Vec<(String, F)> = vec![
        ("pay-token signature proof".into(), sigproof_ref(&p.key, "pk.", at, pt, 5, c)),
        ("revocation-lock commitment proof".into(), {
            let lhs = atom_scalar(&p.rev, "h") * cp(at, "old_revocation_lock_proof", "blinding_factor_response_scalar")
                + atom_scalar(&p.rev, "gs.0") * cp(at, "old_revocation_lock_proof", "message_response_scalars.0");
            eq(lhs, cp(at, "old_revocation_lock_proof", "scalar_commitment") + c * cp(at, "old_revocation_lock_proof", "commitment"))
        }),
        ("state Schnorr".into(), req_schnorr(&p.key, at, s, c)),
        ("close-state Schnorr".into(), req_schnorr(&p.key, at, cl, c)),
        ("channel id: state = close".into(), eq(z(at, s, 0), z(at, cl, 0))),
        ("channel id: close = pay token".into(), eq(z(at, cl, 0), zpt(0))),
        ("close slot1 = c*CLOSE + k".into(), eq(z(at, cl, 1), c * CLOSE_SCALAR + atom_scalar(at, "close_tag_commitment_scalar"))),
        ("old revocation lock: commitment = pay token slot2".into(), eq(cp(at, "old_revocation_lock_proof", "message_response_scalars.0"), zpt(2))),
        ("new revocation lock: state = close".into(), eq(z(at, s, 2), z(at, cl, 2))),
        ("pay token slot1 = c*nonce + k".into(), eq(zpt(1), c * nonce + atom_scalar(at, "old_nonce_commitment_scalar"))),
        ("customer balance: state = close".into(), eq(z(at, s, 3), z(at, cl, 3))),
        ("merchant balance: state = close".into(), eq(z(at, s, 4), z(at, cl, 4))),
        ("customer balance = old - c*amount".into(), eq(z(at, s, 3), zpt(3) - c * amt)),
        ("merchant balance = old + c*amount".into(), eq(z(at, s, 4), zpt(4) + c * amt)),
    ];
    for (rc, slot) in [("customer_balance_proof", 3usize), ("merchant_balance_proof", 4)] {
        let mut sum = Scalar::zero();
        for j in 0..9 {
            let dp = format!("{}.digit_proofs.{}", rc, j);
            v.push((format!("{} digit {} signature proof", rc, j), sigproof_ref(&p.rkey, "public_key.", at, &dp, 1, c)));
            sum = sum + pow128(j) * cp(at, &dp, "commitment_proof.message_response_scalars.0");
        }
        v.push((format!("{} linked: sum 128^j z_j = state slot{}", rc, slot), eq(sum, z(at, s, slot))));
    }
    v
}

fn challenge_under(label: &str) -> Scalar {
    let d = *digest_under(label).last().expect("challenge hash recorded");
    Scalar::from_term(sx::var_node(d))
}

fn accept_set(seed: u64, tier: Tier, cbal: u64, mbal: u64, amt: i64, full: bool) {
    let d = if tier == Tier::Quick { 1 } else if full { 2 } else { 1 };
    let name = format!("C02 accept-set (cb={}, mb={}, amount={})", cbal, mbal, amt);
    let mut n_accept = 0;
    let mut n_conj = 0;
    let st = explore(DrawMode::NonDegenerate, seed, d, if d == 1 { 300 } else { 2500 }, &["verify"], |p| {
        let mut e = pay_setup(seed, cbal, mbal, amt);
        let proof: PProof = match decode(&e.bytes) {
            Some(x) => x,
            None => return,
        };
        sx::set_label("verify");
        let res = e.w.merchant.allow_payment(&mut e.rng, amount(amt), &e.nonce, proof, &e.pctx);
        let c = challenge_under("verify");
        eng::set_cex_unknowns(&e.at.iter().filter(|a| !a.path.ends_with(".commitment") && !a.path.ends_with("sigma1")).map(|a| a.term()).chain(std::iter::once(c.term())).collect::<Vec<_>>());
        let r = pay_reference(&e, c);
        n_conj = r.len();
        // feasibility of flipped paths is not classified here (cost); the obligations below are sound either way
        if p.flips.is_empty() {
            path_feasible(&name, p);
        }
        if res.is_some() {
            n_accept += 1;
            for (nm, f) in &r {
                eng::prove(&format!("{}: accepted (path {:?}) => {}", name, p.flips, nm), &format!("C02 accept-implies {}", nm), f);
            }
        } else {
            let rall = F::and(r.iter().map(|x| x.1.clone()).collect());
            eng::prove(&format!("{}: path {:?} rejects => reference relation is false", name, p.flips), "C02 reject-implies-not-reference", &rall.not());
        }
        if p.index < 3 {
            eng::sample(json!({"harness": name, "flips": p.flips, "accepted": res.is_some(), "decisions": sx::n_decisions(), "reference_conjuncts": r.len()}));
        }
    });
    eng::note(&format!("{}: {} paths, {} reference conjuncts, truncated={}", name, st.paths, n_conj, st.truncated));
    if n_accept == 0 {
        eng::inconclusive(&format!("{}: no accepting path explored", name));
    }
    for (p, m) in st.panics {
        eng::inconclusive(&format!("{} panicked on path {:?}: {}", name, p, m));
    }
}

fn special_soundness(seed: u64, cbal: u64, mbal: u64, amt: i64) {
    let name = format!("C02 special soundness (cb={}, mb={}, amount={})", cbal, mbal, amt);
    sx::begin(vec![], DrawMode::NonDegenerate, seed);
    let mut e = pay_setup(seed, cbal, mbal, amt);
    let mut b2 = e.bytes.clone();
    let mut at_b = e.at.clone();
    for (i, a) in e.at.iter().enumerate() {
        if a.path.contains("response_scalar") {
            let alt = perturb(&mut b2, a, &format!("B.{}", a.path.replace(|c: char| !c.is_ascii_alphanumeric(), "_")));
            at_b[i].id = alt.term();
        }
    }
    let (pa, pb): (PProof, PProof) = (decode(&e.bytes).unwrap(), decode(&b2).unwrap());
    sx::set_label("verA");
    let n0 = sx::n_decisions();
    let ra = e.w.merchant.allow_payment(&mut e.rng, amount(amt), &e.nonce, pa, &e.pctx).is_some();
    let seq: Vec<bool> = decisions_since(n0).iter().map(|d| d.outcome).collect();
    sx::new_oracle();
    sx::set_label("verB");
    sx::force_seq(seq);
    let rb = e.w.merchant.allow_payment(&mut e.rng, amount(amt), &e.nonce, pb, &e.pctx).is_some();
    if !(ra && rb) {
        eng::inconclusive(&format!("{}: could not drive both transcripts onto the accepting path", name));
        return;
    }
    let (ca, cb_) = (challenge_under("verA"), challenge_under("verB"));
    let dc = ca - cb_;
    let h = eng::hyps();
    let (a, b) = (&e.at, &at_b);
    let d = |pfx: &str, what: &str| cp(a, pfx, what) - cp(b, pfx, what);
    let dz = |pfx: &str, i: usize| d(pfx, &format!("commitment_proof.message_response_scalars.{}", i));
    let nonce = atom_scalar(&atoms::atoms_of(&e.nonce), "");
    let amts = amount_scalar(amt);
    // openings
    {
        // pay-token commitment in G2 under (g2; Y~)
        let mut rhs = atom_scalar(&e.key, "pk.g2") * d("old_pay_token_proof", "commitment_proof.blinding_factor_response_scalar");
        for i in 0..5 {
            rhs = rhs + atom_scalar(&e.key, &format!("pk.y2s.{}", i)) * dz("old_pay_token_proof", i);
        }
        eng::prove_under(&format!("{}: extracted old state opens the pay-token commitment", name), "C02 extraction-opening pay-token", &h, &eq(dc * cp(a, "old_pay_token_proof", "commitment_proof.commitment"), rhs));
        for pfx in ["state_proof", "close_state_proof"] {
            let mut rhs = atom_scalar(&e.key, "pk.g1") * d(pfx, "commitment_proof.blinding_factor_response_scalar");
            for i in 0..5 {
                rhs = rhs + atom_scalar(&e.key, &format!("pk.y1s.{}", i)) * dz(pfx, i);
            }
            eng::prove_under(&format!("{}: extracted tuple opens the {} commitment", name, pfx), "C02 extraction-opening", &h, &eq(dc * cp(a, pfx, "commitment_proof.commitment"), rhs));
        }
        let rhs = atom_scalar(&e.rev, "h") * d("old_revocation_lock_proof", "blinding_factor_response_scalar") + atom_scalar(&e.rev, "gs.0") * d("old_revocation_lock_proof", "message_response_scalars.0");
        eng::prove_under(&format!("{}: extracted lock opens the revocation-lock commitment", name), "C02 extraction-opening revlock", &h, &eq(dc * cp(a, "old_revocation_lock_proof", "commitment"), rhs));
    }
    let zrl = d("old_revocation_lock_proof", "message_response_scalars.0");
    let mut goals: Vec<(String, F)> = vec![
        ("old state slot1 = the nonce argument".into(), eq(dz("old_pay_token_proof", 1), dc * nonce)),
        ("new state slot0 = old slot0".into(), eq(dz("state_proof", 0), dz("old_pay_token_proof", 0))),
        ("close slot0 = old slot0".into(), eq(dz("close_state_proof", 0), dz("old_pay_token_proof", 0))),
        ("close slot1 = close tag".into(), eq(dz("close_state_proof", 1), dc * CLOSE_SCALAR)),
        ("new lock shared by state and close".into(), eq(dz("state_proof", 2), dz("close_state_proof", 2))),
        ("committed revocation lock = old slot2".into(), eq(zrl, dz("old_pay_token_proof", 2))),
        ("new customer balance = old - amount".into(), eq(dz("state_proof", 3), dz("old_pay_token_proof", 3) - dc * amts)),
        ("new merchant balance = old + amount".into(), eq(dz("state_proof", 4), dz("old_pay_token_proof", 4) + dc * amts)),
        ("close customer balance = state".into(), eq(dz("close_state_proof", 3), dz("state_proof", 3))),
        ("close merchant balance = state".into(), eq(dz("close_state_proof", 4), dz("state_proof", 4))),
    ];
    for (rc, slot) in [("customer_balance_proof", 3usize), ("merchant_balance_proof", 4)] {
        let mut sum = Scalar::zero();
        for j in 0..9 {
            sum = sum + pow128(j) * dz(&format!("{}.digit_proofs.{}", rc, j), 0);
        }
        goals.push((format!("new state slot{} = sum 128^j * extracted digit j ({})", slot, rc), eq(sum, dz("state_proof", slot))));
    }
    for (nm, g) in goals {
        eng::prove_under(&format!("{}: {}", name, nm), &format!("C02 extraction {}", nm), &h, &g);
    }
    // the blinded pay token is a PS signature on the extracted old state up to the known blinding:
    // e(s1', X~ + C~) = e(s2', g~) is in the path condition; with C~ opened by the extracted tuple this is the PS relation
    // for (s1', s2' - bf*s1').  Posed as a ring identity with dc cleared:
    {
        let (s1, s2) = (cp(a, "old_pay_token_proof", "blinded_signature.sigma1"), cp(a, "old_pay_token_proof", "blinded_signature.sigma2"));
        let g2 = atom_scalar(&e.key, "pk.g2");
        let x2 = atom_scalar(&e.key, "pk.x2");
        let mut msgpart = Scalar::zero();
        for i in 0..5 {
            msgpart = msgpart + atom_scalar(&e.key, &format!("pk.y2s.{}", i)) * dz("old_pay_token_proof", i);
        }
        let dbf = d("old_pay_token_proof", "commitment_proof.blinding_factor_response_scalar");
        // dc * e(s1', X~) + e(s1', sum Y~_i dz_i) = e(dc*s2' - dbf*s1', g~)
        let lhs = s1 * (dc * x2 + msgpart);
        let rhs = (dc * s2 - dbf * s1) * g2;
        // targeted hypotheses: the verifier's pairing equation (from the path condition), the opening just proved,
        // and two instances of the ring lemma  A == B  =>  k*A == k*B
        let com = cp(a, "old_pay_token_proof", "commitment_proof.commitment");
        let pairing = eq(s1 * (x2 + com), s2 * g2);
        let opening = eq(dc * com, g2 * dbf + msgpart);
        let in_pc = eng::prove_under(&format!("{}: verifier's pairing equation is in the accepting path condition", name), "C02 accept-implies pay-token pairing", &h, &pairing);
        if in_pc {
            let hy = vec![
                pairing.clone(),
                opening.clone(),
                F::imp(pairing.clone(), eq(dc * (s1 * (x2 + com)), dc * (s2 * g2))),
                F::imp(opening.clone(), eq(s1 * (dc * com), s1 * (g2 * dbf + msgpart))),
            ];
            eng::prove_under(&format!("{}: blinded pay token is a PS signature on the extracted old state (cleared denominators)", name), "C02 extraction pay-token-is-signature-on-old-state", &hy, &eq(lhs, rhs));
        }
    }
    let _ = eng::with_timeout(5000, || eng::satisfiable_opt(&format!("{}: two accepting transcripts with different challenges exist", name), "TWIN", &h, &ne(ca, cb_), false));
    eng::path_done();
}

/// weights and digit count are read off the verifier's own link equation; then pure integer arithmetic
fn digits_bound() {
    let seed = 1;
    sx::begin(vec![], DrawMode::NonDegenerate, seed);
    let mut e = pay_setup(seed, 100, 50, 7);
    let proof: PProof = decode(&e.bytes).unwrap();
    sx::set_label("verify");
    let _ = e.w.merchant.allow_payment(&mut e.rng, amount(7), &e.nonce, proof, &e.pctx);
    let ds = sx::snapshot_decisions();
    for (rc, slot) in [("customer_balance_proof", 3usize), ("merchant_balance_proof", 4)] {
        let target = var_of(z(&e.at, "state_proof", slot)).expect("response atom is a variable");
        let digit_vars: Vec<u32> = (0..9).map(|j| var_of(cp(&e.at, &format!("{}.digit_proofs.{}", rc, j), "commitment_proof.message_response_scalars.0")).unwrap()).collect();
        // find the link equation: an affine equality over exactly {target} ∪ digit vars
        let mut found = None;
        for dcs in &ds {
            if let F::EqZ(t) = &dcs.cond {
                if let Some((m, c0)) = affine(*t) {
                    let nz: Vec<u32> = m.iter().filter(|(_, v)| **v != fq::ZERO).map(|(k, _)| *k).collect();
                    if nz.contains(&target) && nz.iter().all(|v| *v == target || digit_vars.contains(v)) && nz.len() > 1 && c0 == fq::ZERO {
                        found = Some(m);
                    }
                }
            }
        }
        let m = match found {
            Some(m) => m,
            None => {
                eng::finding(&format!("C02 range-link-missing {}", rc), &format!("no comparison linking the {} digits to state slot {} was made by the verifier", rc, slot), None, json!({"kind":"model"}));
                continue;
            }
        };
        // normalise so that the target's coefficient is -1
        let ct = m[&target];
        let scale = fq::neg(&fq::inv(&ct));
        let ws: Vec<U256> = digit_vars.iter().map(|v| fq::mul(m.get(v).unwrap_or(&fq::ZERO), &scale)).collect();
        let expect: Vec<U256> = (0..9).map(|j| pow128(j).shadow()).collect();
        eng::note(&format!("{}: verifier's link weights = {:?}", rc, ws.iter().map(fq::to_dec).collect::<Vec<_>>()));
        // integer obligation with the *extracted* weights
        let mut body = String::new();
        let mut sum = String::from("(+ 0");
        for (j, w) in ws.iter().enumerate() {
            body.push_str(&format!("(declare-const d{} Int)(assert (and (<= 0 d{}) (<= d{} 127)))\n", j, j, j));
            sum.push_str(&format!(" (* {} d{})", fq::to_dec(w), j));
        }
        sum.push(')');
        body.push_str(&format!("(assert (not (and (<= 0 {s}) (<= {s} 9223372036854775807) (< {s} {q}))))", s = sum, q = fq::Q_DEC));
        eng::raw_unsat(&format!("C02 {}: digits in [0,128) with the verifier's weights => value in [0, 2^63) and no wrap mod q", rc), &format!("C02 range-weights {}", rc), &body);
        // and the largest representable value is exactly 2^63-1 (weights are the 9 powers of 128)
        if ws != expect {
            eng::finding(&format!("C02 range-weights {}", rc), &format!("the verifier's weights for {} are not 128^j, j<9", rc), None, json!({"kind":"model"}));
        }
    }
    eng::path_done();
}

// ---------------------------------------------------------------- witness-space soundness (lying prover)
/// The prover's whole witness is symbolic: the hidden new state, the hidden close state, the message of the revocation-lock
/// commitment and every commitment scalar (shadow values: an honest customer's).  It holds a genuine pay token on the old
/// state (o.id, o.nonce, o.lock, cbal, mbal) and runs the *public* builders of zkchannels-crypto; the image is assembled
/// from their outputs and verified by the real `allow_payment` under two independently drawn challenges (rewound oracle).
/// Obligation: accepted twice => the hidden values are the correct update of the old state.
/// Not varied: the old state itself (a lie there needs a forged pay token: PS unforgeability, not posed) and the two range
/// values (the range builder takes a concrete i64).
fn lying_prover(seed: u64, cbal: u64, mbal: u64, amt: i64) {
    use std::collections::HashMap;
    let name = format!("C02 lying prover (cb={}, mb={}, amount={})", cbal, mbal, amt);
    sx::begin(vec![], DrawMode::NonDegenerate, seed);
    let mut rng = SeedRng::new(seed);
    let w = world(&mut rng);
    let pctx = Context::new(b"pay context");
    let kp = w.merchant.signing_keypair().clone();
    let pk = kp.public_key().clone();
    let rparams = w.merchant.range_constraint_parameters();
    let rev = w.merchant.revocation_commitment_parameters().clone();
    let sv = |n: &str, sh: U256| Scalar::from_term(sx::fresh_scalar(n, sh));
    let rnd = |k: u64| fq::reduce(&sx::prf(seed, 2000 + k, b"lying-pay"));
    let (ncb, nmb) = (cbal as i128 - amt as i128, mbal as i128 + amt as i128);
    if ncb < 0 || nmb < 0 || ncb > i64::MAX as i128 || nmb > i64::MAX as i128 {
        eng::inconclusive(&format!("{}: the honest update is out of range", name));
        return;
    }
    let (ncb, nmb) = (ncb as i64, nmb as i64);
    // old state: fixed (not the prover's to choose), symbolic id / nonce / lock
    let mo = [sv("o.id", rnd(1)), sv("o.nonce", rnd(2)), sv("o.lock", rnd(3)), Scalar::from(cbal), Scalar::from(mbal)];
    let nonce: NonceT = match decode(&mo[1].to_bytes()) {
        Some(n) => n,
        None => {
            eng::inconclusive(&format!("{}: nonce does not decode", name));
            return;
        }
    };
    sx::set_label("setup:paytoken");
    let pay_token = Message::new(mo).sign(&mut rng, &kp);
    // range builders (re-created from a cloned generator whenever a response is needed: same draws, same variables)
    let rng_rc = rng.clone();
    let mk_rc = |r: &SeedRng| {
        let mut r = r.clone();
        let c = RangeConstraintBuilder::generate_constraint_commitments(ncb, rparams, &mut r).expect("in range");
        let m = RangeConstraintBuilder::generate_constraint_commitments(nmb, rparams, &mut r).expect("in range");
        (c, m, r)
    };
    sx::set_label("prover");
    let (rcc, rcm, r_after) = mk_rc(&rng_rc);
    let (kcb, kmb) = (rcc.commitment_scalar(), rcm.commitment_scalar());
    rng = r_after;
    let (new_nonce, new_lock) = (rnd(4), rnd(5));
    let honest_s = [mo[0].shadow(), new_nonce, new_lock, Scalar::from(ncb as u64).shadow(), Scalar::from(nmb as u64).shadow()];
    let honest_c = [mo[0].shadow(), CLOSE_SCALAR.shadow(), new_lock, honest_s[3], honest_s[4]];
    let hk_o = [rnd(10), rnd(11), rnd(12), kcb.shadow(), kmb.shadow()];
    let hk_s = [hk_o[0], rnd(13), rnd(14), kcb.shadow(), kmb.shadow()];
    let hk_c = [hk_o[0], rnd(15), hk_s[2], kcb.shadow(), kmb.shadow()];
    let mut ms = [Scalar::zero(); 5];
    let mut mc = [Scalar::zero(); 5];
    let mut ko = [Scalar::zero(); 5];
    let mut ks = [Scalar::zero(); 5];
    let mut kc = [Scalar::zero(); 5];
    for i in 0..5 {
        ms[i] = sv(&format!("w.ms{}", i), honest_s[i]);
        mc[i] = sv(&format!("w.mc{}", i), honest_c[i]);
        ko[i] = sv(&format!("w.ko{}", i), hk_o[i]);
        ks[i] = sv(&format!("w.ks{}", i), hk_s[i]);
        kc[i] = sv(&format!("w.kc{}", i), hk_c[i]);
    }
    let r_msg = sv("w.r", mo[2].shadow());
    let kr = sv("w.kr", hk_o[2]);
    let kappa_n = sv("w.kappa_nonce", hk_o[1]);
    let kappa_c = sv("w.kappa_close", hk_c[1]);
    let rlb = CommitmentProofBuilder::<G1Projective, 1>::generate_proof_commitments(&mut rng, Message::new([r_msg]), &[Some(kr)], &rev);
    let otb = SignatureProofBuilder::<5>::generate_proof_commitments(&mut rng, Message::new(mo), pay_token, &ko.map(Some), &pk);
    let sb = SignatureRequestProofBuilder::<5>::generate_proof_commitments(&mut rng, Message::new(ms), &ks.map(Some), &pk);
    let cbl = SignatureRequestProofBuilder::<5>::generate_proof_commitments(&mut rng, Message::new(mc), &kc.map(Some), &pk);
    drop((rcc, rcm));
    let assemble = |c: Challenge| -> Vec<u8> {
        let (rcc, rcm, _) = mk_rc(&rng_rc);
        let mut bytes = vec![];
        bytes.extend_from_slice(&kappa_n.to_bytes());
        bytes.extend_from_slice(&kappa_c.to_bytes());
        bytes.extend(atoms::layout(&otb.clone().generate_proof_response(c)).bytes);
        bytes.extend(atoms::layout(&rlb.clone().generate_proof_response(c)).bytes);
        bytes.extend(atoms::layout(&sb.clone().generate_proof_response(c)).bytes);
        bytes.extend(atoms::layout(&cbl.clone().generate_proof_response(c)).bytes);
        bytes.extend(atoms::layout(&rcc.generate_constraint_response(c)).bytes);
        bytes.extend(atoms::layout(&rcm.generate_constraint_response(c)).bytes);
        bytes
    };
    let mut challenges = vec![];
    let mut accepted = vec![];
    for round in 0..2 {
        if round == 1 {
            sx::new_oracle();
        }
        sx::set_label(&format!("draft{}", round));
        let draft: Option<PProof> = decode(&assemble(sym_challenge(&format!("draftc{}", round))));
        let Some(draft) = draft else {
            eng::inconclusive(&format!("{}: the assembled proof image does not decode", name));
            return;
        };
        sx::set_force(Some(false));
        let _ = w.merchant.allow_payment(&mut rng, amount(amt), &nonce, draft, &pctx);
        sx::set_force(None);
        let raw = sx::with(|a| a.hashes.iter().rev().find(|h| a.labels[h.label as usize] == format!("draft{}", round) && h.raw_len > 64).map(|h| h.raw.clone()));
        let Some(raw) = raw else {
            eng::inconclusive(&format!("{}: no challenge transcript recorded", name));
            return;
        };
        sx::set_label(&format!("chal{}", round));
        let c = ChallengeBuilder::new().with_bytes(&raw).finish();
        challenges.push(c);
        sx::set_label(&format!("verify{}", round));
        let Some(p) = decode::<PProof>(&assemble(c)) else {
            eng::inconclusive(&format!("{}: the final proof image does not decode", name));
            return;
        };
        accepted.push(w.merchant.allow_payment(&mut rng, amount(amt), &nonce, p, &pctx).is_some());
    }
    if accepted != vec![true, true] {
        eng::inconclusive(&format!("{}: the honest-valued witness is not accepted in both rounds ({:?})", name, accepted));
        return;
    }
    let (c1, c2) = (challenges[0].to_scalar(), challenges[1].to_scalar());
    sx::assume(ne(c1, c2), "independent challenges differ (rewound oracle)");
    let mut names: Vec<String> = vec![];
    let mut unknowns: Vec<Tid> = vec![];
    for (pfx, arr) in [("w.ms", &ms), ("w.mc", &mc), ("w.ko", &ko), ("w.ks", &ks), ("w.kc", &kc)] {
        for (i, v) in arr.iter().enumerate() {
            names.push(format!("{}{}", pfx, i));
            unknowns.push(v.term());
        }
    }
    for (n, v) in [("w.r", r_msg), ("w.kr", kr), ("w.kappa_nonce", kappa_n), ("w.kappa_close", kappa_c)] {
        names.push(n.to_string());
        unknowns.push(v.term());
    }
    eng::set_cex_unknowns(&unknowns);
    let a = amount_scalar(amt);
    let goals: Vec<(&str, Scalar, Scalar)> = vec![
        ("hidden new state slot0 = old channel id", ms[0], mo[0]),
        ("hidden close state slot0 = old channel id", mc[0], mo[0]),
        ("hidden close state slot1 = close tag", mc[1], CLOSE_SCALAR),
        ("hidden new state and close state share slot2 (revocation lock)", ms[2], mc[2]),
        ("committed old revocation lock = lock of the old state", r_msg, mo[2]),
        ("hidden new customer balance = old - amount", ms[3], mo[3] - a),
        ("hidden new merchant balance = old + amount", ms[4], mo[4] + a),
        ("hidden close state slot3 = new customer balance", mc[3], ms[3]),
        ("hidden close state slot4 = new merchant balance", mc[4], ms[4]),
    ];
    let base: Vec<F> = {
        let mut h = eng::axioms();
        h.extend(sx::with(|ar| ar.decisions.iter().filter(|d| !ar.labels[d.label as usize].starts_with("draft")).map(|d| d.cond.clone().with_outcome(d.outcome)).collect::<Vec<_>>()));
        h
    };
    if !sx::eval_with(&HashMap::new(), &base).iter().all(|b| *b) {
        eng::inconclusive(&format!("{}: the hypotheses are not satisfied by the honest witness (vacuous experiment)", name));
        return;
    }
    for (nm, x, y) in goals {
        let mut h = base.clone();
        let prod = (c1 - c2) * (x - y);
        h.push(F::iff(is_z(prod), F::or(vec![is_z(c1 - c2), is_z(x - y)])));
        match eng::valid(&format!("{}: accepted for two independent challenges => {}", name, nm), &h, &eq(x, y)) {
            Tri::Yes => {}
            Tri::No(model) => {
                let mut delta = serde_json::Map::new();
                let mut foreign = false;
                for (n, sh) in sx::with(|ar| ar.vars.iter().map(|v| (v.name.clone(), fq::reduce(&v.shadow))).collect::<Vec<_>>()) {
                    if let Some(v) = model.get(&n) {
                        let d = fq::sub(&fq::reduce(&fq::from_dec(v)), &sh);
                        if d != fq::ZERO {
                            if names.contains(&n) {
                                delta.insert(n.clone(), json!(fq::to_dec(&d)));
                            } else {
                                foreign = true;
                            }
                        }
                    }
                }
                // a model that also moves variables outside the prover's witness (keys, draws, digests) is still a
                // counterexample, but not one the lying-prover replay can follow: model-level
                let replay = if foreign { json!({"kind": "model"}) } else { json!({"kind": "lie-pay", "delta": delta, "cb": cbal, "mb": mbal, "amount": amt, "violates": nm}) };
                eng::finding(
                    &format!("C02 fake-witness-accepted {}", nm),
                    &format!("{}: a prover using the public builders on a witness violating '{}' is accepted for every challenge", name, nm),
                    Some(model),
                    replay,
                );
            }
            Tri::Unknown(_) => {}
        }
    }
    eng::set_cex_unknowns(&[]);
    eng::path_done();
}

/// A pay proof on the wire with one atom replaced by an invalid encoding (non-canonical scalar, curve point outside the
/// prime-order group - e.g. a small-order sigma1 that pairs to one with everything) must not reach `allow_payment`.
fn invalid_wire_elements(seed: u64) {
    sx::begin(vec![], DrawMode::NonDegenerate, seed);
    let e = pay_setup(seed, 100, 50, 7);
    let acc = invalid_encodings_accepted::<PProof>(&e.bytes, &e.at);
    eng::ctx(|cx| cx.obligations.push(eng::ObRecord { name: format!("C02 PayProof: each of the {} atoms replaced by an invalid encoding is refused at decode time", e.at.len()), kind: "ENUM", verdict: if acc.is_empty() { "held".into() } else { "violated".into() }, answer: "structural".into(), ms: 0.0, bytes: 0, nvars: 0, nasserts: 0, cross: vec![] }));
    if !acc.is_empty() {
        eng::finding("C02 invalid-encoding-reaches-verifier", &format!("PayProof: an out-of-group / non-canonical encoding of {:?} decodes and would be handed to allow_payment", &acc[..acc.len().min(6)]), None, json!({"kind": "model"}));
    }
    eng::path_done();
}

//! C12 — challenges bind every first-message element and match for prover and verifier.
use crate::prelude::*;
use crate::world::*;
use serde::{de::DeserializeOwned, Serialize};
use zkabacus_crypto::{merchant, Context};
use zkchannels_crypto::SerializeElement;

pub fn run(tier: Tier, seed: u64) {
    eng::functions(&[
        "every `ChallengeInput::consume` of zkchannels-crypto (Scalar, G1/G2 affine+projective, Commitment, PedersenParameters, PublicKey, Signature, BlindedSignature, CommitmentProof(+Builder), SignatureProof(+Builder), SignatureRequestProof(+Builder), RangeConstraintParameters, RangeConstraint(+Builder))",
        "zkchannels_crypto::proofs::ChallengeBuilder::{new, consume, with, consume_bytes, with_bytes, finish}",
        "zkabacus_crypto::proofs::EstablishProof::verify (challenge assembly) through merchant::Config::initialize",
        "zkabacus_crypto::proofs::PayProof::verify (challenge assembly) through merchant::Config::allow_payment",
        "zkabacus_crypto::proofs::{EstablishProof::new, PayProof::new} through customer::{Requested::new, Ready::start}",
        "zkabacus_crypto::proofs::Context::new",
    ]);
    eng::bound("library level: N in {1,2,3,5} (+8,13 thorough), G1 and G2; zkAbacus level: every atom of EstablishProof / PayProof enumerated from the wire form of the current tree; merchant key atoms; range-parameter atoms (quick: 3 signatures + key, thorough: all 128); context strings differing in one byte at positions {0,1,31,last}");
    eng::assumption("ideal hash: two transcripts have equal digests iff their byte images are equal");
    eng::assumption("two 32-byte channel ids that are congruent mod q are the same public value for the proof system (ChannelId::to_scalar reduces mod q): binding of the channel id is posed on byte strings below q");
    builder_vs_proof(tier, seed);
    crate::for_each_n!(tier, library_types, seed);
    fixed_types(seed, tier);
    establish_level(seed, tier);
    pay_level(seed, tier);
}

fn digest_of<T: ChallengeInput>(v: &T, label: &str) -> u32 {
    sx::set_label(label);
    let _ = ChallengeBuilder::new().with(v).finish();
    *digest_under(label).last().expect("hash recorded")
}

// ---------------------------------------------------------------- (a) builder == finished proof
fn builder_vs_proof(tier: Tier, seed: u64) {
    crate::for_each_n!(tier, bvp, seed);
    // range constraint
    for v in [0i64, 1, 127, 128, (1 << 62) + 5, i64::MAX] {
        sx::begin(vec![], DrawMode::NonDegenerate, seed);
        let mut rng = SeedRng::new(seed);
        let params = RangeConstraintParameters::new(&mut rng);
        let b = RangeConstraintBuilder::generate_constraint_commitments(v, &params, &mut rng).expect("in range");
        let d1 = digest_of(&b, "builder");
        let c = sym_challenge("c");
        let p = b.generate_constraint_response(c);
        let d2 = digest_of(&p, "proof");
        eng::prove(&format!("C12 RangeConstraint value={}: builder and proof give the same challenge", v), "C12 builder-proof-mismatch RangeConstraint", &F::BlobEq(d1, d2));
        eng::path_done();
    }
}
fn bvp<const N: usize>(seed: u64) {
    fn both<G: SymGroup + GroupEncoding + SerializeElement, const N: usize>(seed: u64) {
        sx::begin(vec![], DrawMode::NonDegenerate, seed);
        let mut rng = SeedRng::new(seed);
        let params = PedersenParameters::<G, N>::new(&mut rng);
        let b = CommitmentProofBuilder::<G, N>::generate_proof_commitments(&mut rng, Message::new(sym_scalars("m")), &[None; N], &params);
        let d1 = digest_of(&b, "builder");
        let p = b.generate_proof_response(sym_challenge("c"));
        let d2 = digest_of(&p, "proof");
        eng::prove(&format!("C12 CommitmentProof<{},{}>: builder and proof give the same challenge", G::GNAME, N), "C12 builder-proof-mismatch CommitmentProof", &F::BlobEq(d1, d2));
        eng::path_done();
    }
    both::<G1Projective, N>(seed);
    both::<G2Projective, N>(seed);
    sx::begin(vec![], DrawMode::NonDegenerate, seed);
    let mut rng = SeedRng::new(seed);
    let kp = KeyPair::<N>::new(&mut rng);
    let m: [Scalar; N] = sym_scalars("m");
    let sig = Message::new(m).sign(&mut rng, &kp);
    let b = SignatureProofBuilder::<N>::generate_proof_commitments(&mut rng, Message::new(m), sig, &[None; N], kp.public_key());
    let d1 = digest_of(&b, "sb");
    let p = b.generate_proof_response(sym_challenge("c"));
    let d2 = digest_of(&p, "sp");
    eng::prove(&format!("C12 SignatureProof<{}>: builder and proof give the same challenge", N), "C12 builder-proof-mismatch SignatureProof", &F::BlobEq(d1, d2));
    let b = SignatureRequestProofBuilder::<N>::generate_proof_commitments(&mut rng, Message::new(m), &[None; N], kp.public_key());
    let d1 = digest_of(&b, "rb");
    let p = b.generate_proof_response(sym_challenge("c2"));
    let d2 = digest_of(&p, "rp");
    eng::prove(&format!("C12 SignatureRequestProof<{}>: builder and proof give the same challenge", N), "C12 builder-proof-mismatch SignatureRequestProof", &F::BlobEq(d1, d2));
    eng::path_done();
}

// ---------------------------------------------------------------- (b) every ChallengeInput type binds its atoms
pub fn is_response(path: &str) -> bool {
    path.contains("response_scalar")
}

/// two independent symbolic instances of `honest`; for each wire atom ask whether equal digests force equal atoms
fn binding_of<T: Serialize + DeserializeOwned + ChallengeInput>(tyname: &str, honest: &T, sample_stride: usize) {
    binding_of_for("C12", tyname, honest, sample_stride)
}
pub fn binding_of_for<T: Serialize + DeserializeOwned + ChallengeInput>(prop: &str, tyname: &str, honest: &T, sample_stride: usize) {
    let (a, at_a, _) = atoms::symbolize(honest, "A");
    let (b, at_b, _) = atoms::symbolize(honest, "B");
    let da = digest_of(&a, "hashA");
    let db = digest_of(&b, "hashB");
    let ax = eng::axioms();
    let same = F::BlobEq(da, db);
    for (i, (x, y)) in at_a.iter().zip(at_b.iter()).enumerate() {
        if sample_stride > 1 && i % sample_stride != 0 && i + 8 < at_a.len() && i >= 8 {
            continue;
        }
        let (xs, ys) = (Scalar::from_term(x.term()), Scalar::from_term(y.term()));
        if is_response(&x.path) {
            // responses are deliberately not hashed: documented with the constructive twin
            expect_free(&format!("{} {}.{} (response scalar) is not part of the transcript", prop, tyname, x.path), &ax, &same, xs, ys);
        } else if let Some(m) = unbound_query(&format!("{} {}.{} bound by the challenge (equal digest /\\ different atom)", prop, tyname, x.path), &ax, &same, xs, ys) {
            eng::finding(
                &format!("{} unbound-atom {}.{}", prop, tyname, x.path),
                &format!("two {} values that differ only in {} produce the same challenge transcript", tyname, x.path),
                Some(m),
                json!({"kind": "model", "type": tyname, "atom": x.path}),
            );
        }
    }
    eng::path_done();
}

fn library_types<const N: usize>(seed: u64) {
    fn ped<G: SymGroup + GroupEncoding + SerializeElement, const N: usize>(seed: u64) {
        sx::begin(vec![], DrawMode::NonDegenerate, seed);
        let mut rng = SeedRng::new(seed);
        let params = PedersenParameters::<G, N>::new(&mut rng);
        binding_of(&format!("PedersenParameters<{},{}>", G::GNAME, N), &params, 1);
        sx::begin(vec![], DrawMode::NonDegenerate, seed);
        let mut rng = SeedRng::new(seed);
        let params = PedersenParameters::<G, N>::new(&mut rng);
        let b = CommitmentProofBuilder::<G, N>::generate_proof_commitments(&mut rng, Message::new(sym_scalars("m")), &[None; N], &params);
        let p = b.generate_proof_response(sym_challenge("c"));
        binding_of(&format!("CommitmentProof<{},{}>", G::GNAME, N), &p, 1);
    }
    ped::<G1Projective, N>(seed);
    ped::<G2Projective, N>(seed);
    sx::begin(vec![], DrawMode::NonDegenerate, seed);
    let mut rng = SeedRng::new(seed);
    let kp = KeyPair::<N>::new(&mut rng);
    binding_of(&format!("PublicKey<{}>", N), kp.public_key(), 1);
    sx::begin(vec![], DrawMode::NonDegenerate, seed);
    let mut rng = SeedRng::new(seed);
    let kp = KeyPair::<N>::new(&mut rng);
    let m: [Scalar; N] = sym_scalars("m");
    let sig = Message::new(m).sign(&mut rng, &kp);
    let b = SignatureProofBuilder::<N>::generate_proof_commitments(&mut rng, Message::new(m), sig, &[None; N], kp.public_key());
    let p = b.generate_proof_response(sym_challenge("c"));
    binding_of(&format!("SignatureProof<{}>", N), &p, 1);
    sx::begin(vec![], DrawMode::NonDegenerate, seed);
    let mut rng = SeedRng::new(seed);
    let kp = KeyPair::<N>::new(&mut rng);
    let b = SignatureRequestProofBuilder::<N>::generate_proof_commitments(&mut rng, Message::new(sym_scalars("m")), &[None; N], kp.public_key());
    let p = b.generate_proof_response(sym_challenge("c"));
    binding_of(&format!("SignatureRequestProof<{}>", N), &p, 1);
}

fn fixed_types(seed: u64, tier: Tier) {
    // element types hashed directly
    sx::begin(vec![], DrawMode::NonDegenerate, seed);
    macro_rules! elem {
        ($name:expr, $mk:expr) => {{
            let (xa, xb) = (sym_scalar(&format!("{}_a", $name)), sym_scalar(&format!("{}_b", $name)));
            let (va, vb) = ($mk(xa), $mk(xb));
            let da = digest_of(&va, &format!("{}A", $name));
            let db = digest_of(&vb, &format!("{}B", $name));
            let (r, m) = eng::satisfiable(&format!("C12 {} bound by the challenge", $name), "REFUTE", &eng::axioms(), &F::and(vec![F::BlobEq(da, db), ne(xa, xb)]));
            if let Tri::Yes = r {
                eng::finding(&format!("C12 unbound-atom {}", $name), &format!("two different {} values give the same challenge", $name), m, json!({"kind":"model"}));
            }
        }};
    }
    elem!("Scalar", |x: Scalar| x);
    elem!("G1Affine", |x: Scalar| G1Affine(x));
    elem!("G2Affine", |x: Scalar| G2Affine(x));
    elem!("G1Projective", |x: Scalar| G1Projective(x));
    elem!("G2Projective", |x: Scalar| G2Projective(x));
    elem!("Commitment_G1", |x: Scalar| commitment_of(G1Projective(x)));
    elem!("Commitment_G2", |x: Scalar| commitment_of(G2Projective(x)));
    eng::path_done();
    // raw bytes and ordering: with_bytes / consume_bytes
    {
        sx::begin(vec![], DrawMode::NonDegenerate, seed);
        let (x, y) = (sym_scalar("x"), sym_scalar("y"));
        sx::set_label("xy");
        let _ = ChallengeBuilder::new().with(&x).with(&y).finish();
        sx::set_label("yx");
        let mut b = ChallengeBuilder::new();
        b.consume(&y);
        b.consume(&x);
        let _ = b.finish();
        let (d1, d2) = (digest_under("xy")[0], digest_under("yx")[0]);
        // same digest iff the two sequences are equal item by item (order matters)
        eng::prove("C12 ChallengeBuilder: digest(x,y) == digest(y,x) only if x == y", "C12 builder-order", &F::imp(F::BlobEq(d1, d2), eq(x, y)));
        sx::set_label("b1");
        let _ = ChallengeBuilder::new().with_bytes(b"abc").with(&x).finish();
        sx::set_label("b2");
        let mut b = ChallengeBuilder::new();
        b.consume_bytes(b"abd");
        b.consume(&x);
        let _ = b.finish();
        eng::prove("C12 ChallengeBuilder: different context bytes give different digests", "C12 builder-bytes", &F::BlobEq(digest_under("b1")[0], digest_under("b2")[0]).not());
        eng::path_done();
    }
    // signatures
    sx::begin(vec![], DrawMode::NonDegenerate, seed);
    let mut rng = SeedRng::new(seed);
    let kp = KeyPair::<1>::new(&mut rng);
    let sig = Message::new([sym_scalar("m")]).sign(&mut rng, &kp);
    binding_of("Signature", &sig, 1);
    sx::begin(vec![], DrawMode::NonDegenerate, seed);
    let mut rng = SeedRng::new(seed);
    let kp = KeyPair::<1>::new(&mut rng);
    let sig = Message::new([sym_scalar("m")]).sign(&mut rng, &kp);
    let bs = sig.blind_and_randomize(&mut rng, bf_of(sym_scalar("bf")));
    binding_of("BlindedSignature", &bs, 1);
    // range constraint parameters and constraint
    sx::begin(vec![], DrawMode::NonDegenerate, seed);
    let mut rng = SeedRng::new(seed);
    let params = RangeConstraintParameters::new(&mut rng);
    binding_of("RangeConstraintParameters", &params, if tier == Tier::Quick { 16 } else { 1 });
    sx::begin(vec![], DrawMode::NonDegenerate, seed);
    let mut rng = SeedRng::new(seed);
    let params = RangeConstraintParameters::new(&mut rng);
    let b = RangeConstraintBuilder::generate_constraint_commitments(123456789, &params, &mut rng).unwrap();
    let p = b.generate_constraint_response(sym_challenge("c"));
    binding_of("RangeConstraint", &p, 1);
}

// ---------------------------------------------------------------- (c) zkAbacus level
pub fn merchant_with_perturbed(m: &merchant::Config, which: &str, idx: usize) -> (merchant::Config, String, Scalar, Scalar) {
    // rebuild the configuration from its serialised parts with one public atom replaced by a fresh variable
    let kl = atoms::layout(m.signing_keypair());
    let pl = atoms::layout(m.revocation_commitment_parameters());
    let rl = atoms::layout(m.range_constraint_parameters());
    let (mut kb, mut pb, mut rb) = (kl.bytes.clone(), pl.bytes.clone(), rl.bytes.clone());
    let (at, bytes): (Vec<Atom>, &mut Vec<u8>) = match which {
        "key" => (atoms::atoms_of_layout(&kl).into_iter().filter(|a| a.path.starts_with("pk.")).collect(), &mut kb),
        "revparams" => (atoms::atoms_of_layout(&pl), &mut pb),
        _ => (atoms::atoms_of_layout(&rl), &mut rb),
    };
    let a = at[idx].clone();
    let alt = perturb(bytes, &a, &format!("alt_{}_{}", which, idx));
    let kp: zkabacus_crypto::KeyPair = decode(&kb).expect("keypair");
    let pp: zkabacus_crypto::CommitmentParameters = decode(&pb).expect("params");
    let rp: RangeConstraintParameters = decode(&rb).expect("range params");
    (merchant::Config::from_parts(kp, pp, rp), a.path.clone(), Scalar::from_term(a.term()), alt)
}
pub fn n_config_atoms(m: &merchant::Config, which: &str) -> usize {
    match which {
        "key" => atoms::atoms_of(m.signing_keypair()).into_iter().filter(|a| a.path.starts_with("pk.")).count(),
        "revparams" => atoms::atoms_of(m.revocation_commitment_parameters()).len(),
        _ => atoms::atoms_of(m.range_constraint_parameters()).len(),
    }
}

fn report_unbound(proof: &str, what: &str, r: Tri, m: Option<std::collections::HashMap<String, String>>) {
    let prop = eng::ctx(|c| c.prop.clone());
    if let Tri::Yes = r {
        eng::finding(
            &format!("{} unbound-atom {}.{}", prop, proof, what),
            &format!("{} can be altered without altering the challenge the merchant derives for the {}", what, proof),
            m,
            json!({"kind": "unbound-atom", "proof": proof, "atom": what}),
        );
    }
}

pub fn establish_level(seed: u64, tier: Tier) {
    // --- every atom of the proof
    sx::begin(vec![], DrawMode::NonDegenerate, seed);
    let mut rng = SeedRng::new(seed);
    let w = world(&mut rng);
    let ctx = Context::new(b"establish context");
    let cid = channel_id(&w, &mut rng, b"merchant account", b"customer account");
    sx::set_label("cust:requested");
    let (_req, honest) = CRequested::new(&mut rng, &w.cust, cid, mb(1000), cb(10), &ctx);
    let (pa, at_a, _) = atoms::symbolize(&honest, "A");
    let (pb, at_b, _) = atoms::symbolize(&honest, "B");
    sx::set_label("verA");
    let ra = w.merchant.initialize(&mut rng, &cid, cb(10), mb(1000), pa, &ctx);
    sx::set_label("verB");
    let rb = w.merchant.initialize(&mut rng, &cid, cb(10), mb(1000), pb, &ctx);
    if ra.is_none() || rb.is_none() {
        eng::inconclusive("C12: symbolic establish proofs with honest shadow values are not accepted");
    }
    let (da, db) = (digest_under("verA")[0], digest_under("verB")[0]);
    let ax = eng::axioms();
    for (x, y) in at_a.iter().zip(at_b.iter()) {
        let (xs, ys) = (Scalar::from_term(x.term()), Scalar::from_term(y.term()));
        let same = F::BlobEq(da, db);
        if is_response(&x.path) {
            expect_free(&format!("C12 EstablishProof.{} (response scalar) not in the merchant's transcript", x.path), &ax, &same, xs, ys);
        } else if let Some(m) = unbound_query(&format!("C12 EstablishProof.{} bound by the merchant's challenge", x.path), &ax, &same, xs, ys) {
            report_unbound("EstablishProof", &x.path, Tri::Yes, Some(m));
        }
    }
    eng::sample(json!({"harness": "establish-level binding", "atoms": at_a.iter().map(|a| format!("{}:{}", a.path, a.kind_name())).collect::<Vec<_>>()}));
    eng::path_done();
    // --- statement: channel id (symbolic), balances (+-1), context bytes, key atoms
    {
        sx::begin(vec![], DrawMode::NonDegenerate, seed);
        let mut rng = SeedRng::new(seed);
        let w = world(&mut rng);
        let ctx = Context::new(b"establish context");
        let cid = channel_id(&w, &mut rng, b"m", b"c");
        let (_req, honest) = CRequested::new(&mut rng, &w.cust, cid, mb(1000), cb(10), &ctx);
        let bytes = atoms::layout(&honest).bytes;
        let (cid_a, ba) = sym_channel_id("cidA");
        let (cid_b, bb) = sym_channel_id("cidB");
        let init = |label: &str, m: &merchant::Config, cid: &zkabacus_crypto::ChannelId, c: u64, mm: u64, ctx: &Context, rng: &mut SeedRng| {
            sx::set_label(label);
            let p: Proof = decode(&bytes).unwrap();
            let _ = m.initialize(rng, cid, cb(c), mb(mm), p, ctx);
            *digest_under(label).last().unwrap()
        };
        let d0 = init("s0", &w.merchant, &cid_a, 10, 1000, &ctx, &mut rng);
        let d1 = init("s1", &w.merchant, &cid_b, 10, 1000, &ctx, &mut rng);
        if let Some(m) = blob_binding("C12 establish statement: channel id (all 32 bytes) bound by the merchant's challenge", &eng::axioms(), &F::BlobEq(d0, d1), ba, bb) {
            report_unbound("EstablishProof-statement", "channel_id", Tri::Yes, Some(m));
        }
        for (k, (c2, m2)) in [(11u64, 1000u64), (9, 1000), (10, 1001), (10, 999), (1000, 10)].iter().enumerate() {
            let d = init(&format!("bal{}", k), &w.merchant, &cid_a, *c2, *m2, &ctx, &mut rng);
            let (r, m) = eng::satisfiable(&format!("C12 establish statement: balances (10,1000) vs ({},{}) give different challenges", c2, m2), "REFUTE", &eng::axioms(), &F::BlobEq(d0, d));
            report_unbound("EstablishProof-statement", "balances", r, m);
        }
        let base = b"establish context".to_vec();
        for (p, (what, c2)) in context_variants(&base, &[0, 1, base.len() - 1]).into_iter().enumerate() {
            let ctx2 = Context::new(&c2);
            let d = init(&format!("ctx{}", p), &w.merchant, &cid_a, 10, 1000, &ctx2, &mut rng);
            let (r, m) = eng::satisfiable(&format!("C12 establish statement: {} gives a different challenge", what), "REFUTE", &eng::axioms(), &F::BlobEq(d0, d));
            report_unbound("EstablishProof-statement", "context", r, m);
        }
        let nk = n_config_atoms(&w.merchant, "key");
        for i in 0..nk {
            let (m2, path, orig, alt) = merchant_with_perturbed(&w.merchant, "key", i);
            let d = init(&format!("key{}", i), &m2, &cid_a, 10, 1000, &ctx, &mut rng);
            let (r, m) = eng::satisfiable(&format!("C12 establish statement: merchant key atom {} bound", path), "REFUTE", &eng::axioms(), &F::and(vec![F::BlobEq(d0, d), ne(orig, alt)]));
            report_unbound("EstablishProof-statement", &format!("key.{}", path), r, m);
        }
        eng::path_done();
    }
    let _ = tier;
}

pub fn pay_level(seed: u64, tier: Tier) {
    sx::begin(vec![], DrawMode::NonDegenerate, seed);
    let mut rng = SeedRng::new(seed);
    let w = world(&mut rng);
    let ctx = Context::new(b"establish context");
    let pctx = Context::new(b"pay context");
    let cid = channel_id(&w, &mut rng, b"m", b"c");
    let ready = establish(&w, &mut rng, cid, 100, 50, &ctx);
    sx::set_label("cust:start");
    let (_started, start) = ready.start(&mut rng, amount(7), &pctx, &w.cust).ok().expect("start");
    let nonce = start.nonce;
    let layout = atoms::layout(&start.pay_proof);
    let (bytes_a, at_a) = atoms::symbolize_layout(&layout, "A");
    let (bytes_b, at_b) = atoms::symbolize_layout(&layout, "B");
    let allow = |label: &str, m: &merchant::Config, bytes: &[u8], amt: i64, nonce: &NonceT, ctx: &Context, rng: &mut SeedRng| {
        sx::set_label(label);
        let p: PProof = decode(bytes).expect("decode pay proof");
        let r = m.allow_payment(rng, amount(amt), nonce, p, ctx).is_some();
        (r, *digest_under(label).last().unwrap())
    };
    let (ra, da) = allow("verA", &w.merchant, &bytes_a, 7, &nonce, &pctx, &mut rng);
    let (rb, db) = allow("verB", &w.merchant, &bytes_b, 7, &nonce, &pctx, &mut rng);
    if !(ra && rb) {
        eng::inconclusive("C12: symbolic pay proofs with honest shadow values are not accepted");
    }
    let ax = eng::axioms();
    for (x, y) in at_a.iter().zip(at_b.iter()) {
        let (xs, ys) = (Scalar::from_term(x.term()), Scalar::from_term(y.term()));
        let same = F::BlobEq(da, db);
        if is_response(&x.path) {
            expect_free(&format!("C12 PayProof.{} (response scalar) not in the merchant's transcript", x.path), &ax, &same, xs, ys);
        } else if let Some(m) = unbound_query(&format!("C12 PayProof.{} bound by the merchant's challenge", x.path), &ax, &same, xs, ys) {
            report_unbound("PayProof", &x.path, Tri::Yes, Some(m));
        }
    }
    eng::sample(json!({"harness": "pay-level binding", "n_atoms": at_a.len(), "first_atoms": at_a.iter().take(12).map(|a| format!("{}:{}", a.path, a.kind_name())).collect::<Vec<_>>()}));
    // --- statement: nonce (symbolic), amount +-1 / sign, context, key atoms, range-parameter atoms
    let honest_bytes = layout.bytes.clone();
    let (d0r, d0) = allow("s0", &w.merchant, &honest_bytes, 7, &nonce, &pctx, &mut rng);
    let _ = d0r;
    {
        let n2s = sym_scalar("nonce2");
        let n2: NonceT = decode(&n2s.to_bytes()).expect("nonce decode");
        let (_, d) = allow("nonce2", &w.merchant, &honest_bytes, 7, &n2, &pctx, &mut rng);
        let n1s = atom_scalar(&atoms::atoms_of(&nonce), "");
        let (r, m) = eng::satisfiable("C12 pay statement: nonce bound", "REFUTE", &eng::axioms(), &F::and(vec![F::BlobEq(d0, d), ne(n1s, n2s)]));
        report_unbound("PayProof-statement", "nonce", r, m);
    }
    for a2 in [8i64, 6, -7, 0] {
        let (_, d) = allow(&format!("amt{}", a2), &w.merchant, &honest_bytes, a2, &nonce, &pctx, &mut rng);
        // the amount enters only the equations, not the transcript; what must hold is C06's rejection, checked there.
        let _ = d;
    }
    let base = b"pay context".to_vec();
    for (p, (what, c2)) in context_variants(&base, &[0, 1, base.len() - 1]).into_iter().enumerate() {
        let ctx2 = Context::new(&c2);
        let (_, d) = allow(&format!("ctx{}", p), &w.merchant, &honest_bytes, 7, &nonce, &ctx2, &mut rng);
        let (r, m) = eng::satisfiable(&format!("C12 pay statement: {} gives a different challenge", what), "REFUTE", &eng::axioms(), &F::BlobEq(d0, d));
        report_unbound("PayProof-statement", "context", r, m);
    }
    let n_key = n_config_atoms(&w.merchant, "key");
    let n_range = n_config_atoms(&w.merchant, "range");
    eng::path_done();
    let key_idx: Vec<usize> = (0..n_key).collect();
    let range_idx: Vec<usize> = if tier == Tier::Quick {
        let mut v: Vec<usize> = vec![0, 1, 2, 3, 126, 127, 254, 255];
        v.extend(256..n_range);
        v
    } else {
        (0..n_range).collect()
    };
    for chunk in key_idx.chunks(16) {
        pay_config_batch(seed, "key", chunk);
    }
    for chunk in range_idx.chunks(16) {
        pay_config_batch(seed, "range", chunk);
    }
}

/// fresh run: honest pay proof checked under the real configuration and under configurations that differ in one public atom
fn pay_config_batch(seed: u64, which: &str, idxs: &[usize]) {
    sx::begin(vec![], DrawMode::NonDegenerate, seed);
    let mut rng = SeedRng::new(seed);
    let w = world(&mut rng);
    let ctx = Context::new(b"establish context");
    let pctx = Context::new(b"pay context");
    let cid = channel_id(&w, &mut rng, b"m", b"c");
    let ready = establish(&w, &mut rng, cid, 100, 50, &ctx);
    sx::set_label("cust:start");
    let (_started, start) = ready.start(&mut rng, amount(7), &pctx, &w.cust).ok().expect("start");
    let nonce = start.nonce;
    let honest_bytes = atoms::layout(&start.pay_proof).bytes;
    let allow = |label: &str, m: &merchant::Config, rng: &mut SeedRng| {
        sx::set_label(label);
        let p: PProof = decode(&honest_bytes).expect("decode pay proof");
        let _ = m.allow_payment(rng, amount(7), &nonce, p, &pctx);
        *digest_under(label).last().unwrap()
    };
    let d0 = allow("s0", &w.merchant, &mut rng);
    for &i in idxs {
        let (m2, path, orig, alt) = merchant_with_perturbed(&w.merchant, which, i);
        let d = allow(&format!("{}{}", which, i), &m2, &mut rng);
        let (r, m) = eng::satisfiable(&format!("C12 pay statement: {} atom {} bound", which, path), "REFUTE", &eng::axioms(), &F::and(vec![F::BlobEq(d0, d), ne(orig, alt)]));
        report_unbound("PayProof-statement", &format!("{}.{}", which, path), r, m);
    }
    eng::path_done();
}

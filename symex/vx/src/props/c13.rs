//! C13 — range constraints accept exactly values in [0, 2^63) linked to the message (E1 part).
use crate::prelude::*;
use crate::props::c02::{cp, pow128, sigproof_ref};

pub fn run(tier: Tier, seed: u64) {
    eng::functions(&[
        "zkchannels_crypto::proofs::RangeConstraint::{verify_range_constraint, verify_range_constraint_digits}",
        "zkchannels_crypto::proofs::RangeConstraintParameters::{new, validate}",
        "zkchannels_crypto::proofs::RangeConstraintBuilder::{generate_constraint_commitments, generate_constraint_response, commitment_scalar}",
        "zkchannels_crypto::proofs::SignatureProof::<1>::verify_knowledge_of_signature",
    ]);
    eng::bound("verifier: fully symbolic constraint (9 x 7 atoms), paths with <= d failing comparisons (d=1 quick, 2 thorough); validate: single failing signature at positions {0,1,2,63,64,126,127} (quick) / every position (thorough); prover side: lattice values (the for-all over i64 is the Kani part)");
    eng::assumption("digit signatures exist only for 0..127 because the signing key is discarded (assumption, not posed)");
    verifier_exact(seed, tier);
    weights(seed);
    mismatch(seed);
    validate(seed, tier);
    prover_lattice(seed);
    first_message_bound(seed);
}

/// Soundness of the constraint rests on the Fiat-Shamir challenge fixing every digit proof's first message (blinded
/// digit signature and commitment) and the parameters: if one of them is not hashed, a prover chooses it after seeing
/// the challenge and links the constraint to any value.  Same query as C12's binding obligation, posed here for the
/// range constraint because "accepts exactly [0, 2^63)" is false without it.
fn first_message_bound(seed: u64) {
    for v in [123456789i64, i64::MAX] {
        sx::begin(vec![], DrawMode::NonDegenerate, seed);
        let mut rng = SeedRng::new(seed);
        let params = RangeConstraintParameters::new(&mut rng);
        let b = RangeConstraintBuilder::generate_constraint_commitments(v, &params, &mut rng).unwrap();
        let p = b.generate_constraint_response(sym_challenge("c"));
        crate::props::c12::binding_of_for("C13", "RangeConstraint", &p, 1);
    }
}

struct Rc {
    rp: RangeConstraintParameters,
    rkey: Vec<Atom>,
    c: Challenge,
    bytes: Vec<u8>,
    at: Vec<Atom>,
    expected: Scalar,
}
fn rc_setup(seed: u64, value: i64) -> Rc {
    let mut rng = SeedRng::new(seed);
    let rp = RangeConstraintParameters::new(&mut rng);
    let rkey = atoms::atoms_of(&rp);
    let c = sym_challenge("c");
    let b = RangeConstraintBuilder::generate_constraint_commitments(value, &rp, &mut rng).expect("in range");
    // honest expected response for a slot holding `value` with the builder's commitment scalar
    let exp_honest = c.to_scalar() * Scalar::from(value as u64) + b.commitment_scalar();
    let honest = b.generate_constraint_response(c);
    let (bytes, at) = atoms::symbolize_layout(&atoms::layout(&honest), "R");
    let expected = Scalar::from_term(sx::fresh_scalar("z_expected", exp_honest.shadow()));
    Rc { rp, rkey, c, bytes, at, expected }
}
fn rc_reference(s: &Rc, c: Scalar, expected: Scalar) -> Vec<(String, F)> {
    let mut v = vec![];
    let mut sum = Scalar::zero();
    for j in 0..9 {
        let dp = format!("digit_proofs.{}", j);
        v.push((format!("digit {} signature proof under the range key", j), sigproof_ref(&s.rkey, "public_key.", &s.at, &dp, 1, c)));
        sum = sum + pow128(j) * cp(&s.at, &dp, "commitment_proof.message_response_scalars.0");
    }
    v.push(("sum 128^j z_j = expected response".into(), eq(sum, expected)));
    v
}

fn verifier_exact(seed: u64, tier: Tier) {
    let d = if tier == Tier::Quick { 1 } else { 2 };
    let name = "C13 verify_range_constraint on a symbolic constraint";
    let mut n_acc = 0;
    let st = explore(DrawMode::NonDegenerate, seed, d, 600, &["verify"], |p| {
        let s = rc_setup(seed, 123456789);
        eng::set_cex_unknowns(&s.at.iter().filter(|a| !a.path.ends_with(".commitment") && !a.path.ends_with("sigma1")).map(|a| a.term()).chain(std::iter::once(s.expected.term())).chain(std::iter::once(s.c.to_scalar().term())).collect::<Vec<_>>());
        let rc: RangeConstraint = match decode(&s.bytes) {
            Some(x) => x,
            None => return,
        };
        sx::set_label("verify");
        let res = rc.verify_range_constraint(&s.rp, s.c, s.expected);
        let r = rc_reference(&s, s.c.to_scalar(), s.expected);
        if p.flips.is_empty() {
            path_feasible(name, p);
        }
        if res {
            n_acc += 1;
            for (nm, f) in &r {
                eng::prove(&format!("{}: accepted (path {:?}) => {}", name, p.flips, nm), &format!("C13 accept-implies {}", nm), f);
            }
        } else {
            let rall = F::and(r.iter().map(|x| x.1.clone()).collect());
            eng::prove(&format!("{}: path {:?} rejects => reference relation false", name, p.flips), "C13 reject-implies-not-reference", &rall.not());
        }
    });
    if n_acc == 0 {
        eng::inconclusive("C13: no accepting verifier path explored");
    }
    eng::note(&format!("{}: {} paths (truncated={})", name, st.paths, st.truncated));
    for (p, m) in st.panics {
        eng::inconclusive(&format!("{} panicked on path {:?}: {}", name, p, m));
    }
}

/// the weights / digit count of the verifier's own link equation, then the integer obligation
fn weights(seed: u64) {
    sx::begin(vec![], DrawMode::NonDegenerate, seed);
    let s = rc_setup(seed, 5);
    let rc: RangeConstraint = decode(&s.bytes).unwrap();
    sx::set_label("verify");
    let _ = rc.verify_range_constraint(&s.rp, s.c, s.expected);
    let target = var_of(s.expected).unwrap();
    let digit_vars: Vec<u32> = (0..9).map(|j| var_of(cp(&s.at, &format!("digit_proofs.{}", j), "commitment_proof.message_response_scalars.0")).unwrap()).collect();
    let all_resp: Vec<u32> = s.at.iter().filter(|a| a.path.ends_with("message_response_scalars.0")).filter_map(|a| var_of(Scalar::from_term(a.term()))).collect();
    let mut found = None;
    for d in sx::snapshot_decisions() {
        if let F::EqZ(t) = &d.cond {
            if let Some((m, c0)) = affine(*t) {
                let nzv: Vec<u32> = m.iter().filter(|(_, v)| **v != fq::ZERO).map(|(k, _)| *k).collect();
                if nzv.contains(&target) && c0 == fq::ZERO {
                    found = Some(m);
                }
            }
        }
    }
    let m = match found {
        Some(m) => m,
        None => {
            eng::finding("C13 range-link-missing", "verify_range_constraint makes no comparison involving the expected response scalar", None, json!({"kind":"model"}));
            return;
        }
    };
    let scale = fq::neg(&fq::inv(&m[&target]));
    let used: Vec<(u32, U256)> = m.iter().filter(|(k, v)| **k != target && **v != fq::ZERO).map(|(k, v)| (*k, fq::mul(v, &scale))).collect();
    if used.iter().any(|(k, _)| !all_resp.contains(k)) {
        eng::finding("C13 range-link-foreign-term", "the link equation involves atoms other than the digit response scalars", None, json!({"kind":"model"}));
    }
    let ws: Vec<U256> = digit_vars.iter().map(|v| used.iter().find(|(k, _)| k == v).map(|(_, w)| *w).unwrap_or(fq::ZERO)).collect();
    eng::note(&format!("C13 verifier link weights: {:?}", ws.iter().map(fq::to_dec).collect::<Vec<_>>()));
    let mut body = String::new();
    let mut sum = String::from("(+ 0");
    for (j, w) in ws.iter().enumerate() {
        body.push_str(&format!("(declare-const d{} Int)(assert (and (<= 0 d{}) (<= d{} 127)))\n", j, j, j));
        sum.push_str(&format!(" (* {} d{})", fq::to_dec(w), j));
    }
    sum.push(')');
    let upper = format!("{}(assert (not (and (<= 0 {s}) (<= {s} 9223372036854775807) (< {s} {q}))))", body, s = sum, q = fq::Q_DEC);
    eng::raw_unsat("C13: digits in [0,128) with the verifier's weights => linked value in [0, 2^63), no wrap mod q", "C13 range-upper-bound", &upper);
    // the maximum 2^63-1 is attained (all digits 127) and every value in range has a digit decomposition
    let onto = format!("{}(assert (and (= d0 127)(= d1 127)(= d2 127)(= d3 127)(= d4 127)(= d5 127)(= d6 127)(= d7 127)(= d8 127)))\n(assert (not (= {s} 9223372036854775807)))", body, s = sum);
    eng::raw_unsat("C13: the all-127 digit vector reaches exactly 2^63-1 under the verifier's weights", "C13 range-max", &onto);
    let expect: Vec<U256> = (0..9).map(|j| pow128(j).shadow()).collect();
    if ws != expect {
        eng::finding("C13 range-weights", "the verifier's weights are not 128^j for j < 9", None, json!({"kind":"model"}));
    }
    eng::path_done();
}

/// an honest/accepted constraint is tied to one expected response, one challenge, one key
fn mismatch(seed: u64) {
    // expected response scalar
    {
        sx::begin(vec![], DrawMode::NonDegenerate, seed);
        let s = rc_setup(seed, 77);
        let rc: RangeConstraint = decode(&s.bytes).unwrap();
        let alt = sym_scalar("z_other_slot");
        let (a, b) = same_path(|| rc.verify_range_constraint(&s.rp, s.c, s.expected), || rc.verify_range_constraint(&s.rp, s.c, alt));
        assert!(a && b);
        unique_under("C13: a constraint accepted against two response scalars => they are equal (link to one slot)", "C13 unlinked-constraint-accepted", &eng::hyps(), None, s.expected, alt);
        eng::path_done();
    }
    // challenge
    {
        sx::begin(vec![], DrawMode::NonDegenerate, seed);
        let s = rc_setup(seed, 77);
        let rc: RangeConstraint = decode(&s.bytes).unwrap();
        let c2 = sym_challenge("c2");
        let (a, b) = same_path(|| rc.verify_range_constraint(&s.rp, s.c, s.expected), || rc.verify_range_constraint(&s.rp, c2, s.expected));
        assert!(a && b);
        let com = cp(&s.at, "digit_proofs.0", "commitment_proof.commitment");
        unique_under("C13: a constraint accepted under two challenges => equal (digit commitment != 1)", "C13 wrong-challenge-accepted", &eng::hyps(), Some(com), s.c.to_scalar(), c2.to_scalar());
        eng::path_done();
    }
    // parameters: each element of the range key
    for which in ["public_key.g2", "public_key.x2", "public_key.y2s.0"] {
        sx::begin(vec![], DrawMode::NonDegenerate, seed);
        let s = rc_setup(seed, 77);
        let rc: RangeConstraint = decode(&s.bytes).unwrap();
        let l = atoms::layout(&s.rp);
        let at = atoms::atoms_of_layout(&l);
        let a = atoms::find(&at, which).clone();
        let mut b2 = l.bytes.clone();
        let alt = perturb(&mut b2, &a, "altkey");
        let rp2: RangeConstraintParameters = decode(&b2).expect("params decode");
        let (ra, rb) = same_path(|| rc.verify_range_constraint(&s.rp, s.c, s.expected), || rc.verify_range_constraint(&rp2, s.c, s.expected));
        assert!(ra && rb);
        let dp = "digit_proofs.0";
        let factor = match which {
            "public_key.x2" => cp(&s.at, dp, "blinded_signature.sigma1"),
            "public_key.y2s.0" => cp(&s.at, dp, "commitment_proof.message_response_scalars.0"),
            // g2 enters both the Schnorr equation (times zb) and the pairing (times sigma2): use the Schnorr factor
            _ => cp(&s.at, dp, "commitment_proof.blinding_factor_response_scalar"),
        };
        unique_under(&format!("C13: a constraint accepted under two range keys differing in {} => equal", which), "C13 wrong-parameters-accepted", &eng::hyps(), Some(factor), Scalar::from_term(a.term()), alt);
        eng::path_done();
    }
}

fn validate(seed: u64, tier: Tier) {
    let name = "C13 RangeConstraintParameters::validate";
    let positions: Vec<usize> = if tier == Tier::Quick { vec![0, 1, 2, 63, 64, 126, 127] } else { (0..128).collect() };
    // decisions of validate(): two per signature (well-formed, pairing) in order
    let mut done = 0;
    let mut run_one = |prefix_flip: Option<usize>| {
        sx::begin(vec![], DrawMode::NonDegenerate, seed);
        let mut rng = SeedRng::new(seed);
        let honest = RangeConstraintParameters::new(&mut rng);
        let (rp, at, _) = atoms::symbolize(&honest, "RP");
        sx::set_label("validate");
        let n0 = sx::n_decisions();
        if let Some(k) = prefix_flip {
            // follow the shadow up to decision k of validate, then fail it
            let mut seq = vec![];
            for i in 0..k {
                seq.push(i % 2 == 1); // well-formed check: is_identity=false ; pairing: true
            }
            seq.push(k % 2 == 0);
            sx::force_seq(seq);
        }
        let res = rp.validate();
        let made = sx::n_decisions() - n0;
        let mut conj = vec![];
        for i in 0..128usize {
            let s1 = atom_scalar(&at, &format!("digit_signatures.{}.sigma1", i));
            let s2 = atom_scalar(&at, &format!("digit_signatures.{}.sigma2", i));
            let inner = atom_scalar(&at, "public_key.x2") + atom_scalar(&at, "public_key.y2s.0") * Scalar::from(i as u64);
            conj.push(F::and(vec![nz(s1), eq(s1 * inner, s2 * atom_scalar(&at, "public_key.g2"))]));
        }
        let r = F::and(conj);
        match prefix_flip {
            None => {
                if res.is_err() || made != 256 {
                    eng::inconclusive(&format!("{}: honest parameters: result {:?}, {} decisions (expected Ok, 256)", name, res.is_ok(), made));
                }
                eng::prove(&format!("{}: Ok => every signature i verifies on digit i", name), "C13 validate-accepts-bad-parameters", &r);
            }
            Some(k) => {
                if res.is_ok() {
                    eng::finding("C13 validate-accepts-bad-parameters", &format!("validate returns Ok although check {} of signature {} failed", k % 2, k / 2), None, json!({"kind":"model"}));
                } else {
                    eng::prove(&format!("{}: Err at signature {} (check {}) => not all signatures valid", name, k / 2, k % 2), "C13 validate-rejects-good-parameters", &r.not());
                }
            }
        }
        eng::path_done();
        done += 1;
    };
    run_one(None);
    for p in positions {
        run_one(Some(2 * p + 1));
        if p % 32 == 0 {
            run_one(Some(2 * p));
        }
    }
    eng::note(&format!("{}: {} paths", name, done));
}

/// prover side on lattice values: refuses negatives (concrete), succeeds in range (verification forced is C10)
fn prover_lattice(seed: u64) {
    sx::begin(vec![], DrawMode::NonDegenerate, seed);
    let mut rng = SeedRng::new(seed);
    let rp = RangeConstraintParameters::new(&mut rng);
    let mut bad = vec![];
    for v in [-1i64, -2, -128, i64::MIN, i64::MIN + 1, -(1 << 62)] {
        if RangeConstraintBuilder::generate_constraint_commitments(v, &rp, &mut rng).is_ok() {
            bad.push(v);
        }
    }
    for v in [0i64, 1, 127, 128, (1 << 62), i64::MAX] {
        if RangeConstraintBuilder::generate_constraint_commitments(v, &rp, &mut rng).is_err() {
            bad.push(v);
        }
    }
    eng::sample(json!({"harness": "C13 prover sign test on lattice values (concrete runs; the all-i64 claim is the Kani harness)", "misclassified": bad}));
    if !bad.is_empty() {
        eng::finding("C13 prover-sign-test", &format!("generate_constraint_commitments misclassifies {:?}", bad), None, json!({"kind":"model"}));
    }
    eng::path_done();
}

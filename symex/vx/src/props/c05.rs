//! C05 — a new pay token is issued only against a valid revocation of the previous state.
use crate::prelude::*;
use crate::world::*;
use zkabacus_crypto::{
    revlock::{RevocationLockBlindingFactor, RevocationPair},
    Context,
};

pub fn run(tier: Tier, seed: u64) {
    eng::functions(&[
        "zkabacus_crypto::merchant::Unrevoked::complete_payment",
        "zkabacus_crypto::revlock::RevocationLockCommitment::verify_revocation_pair",
        "zkchannels_crypto::pedersen::Commitment::verify_opening",
        "zkabacus_crypto::revlock::RevocationPair: TryFrom<UncheckedRevocationPair>, TryFrom<UncheckedRevocationSecret> (through Deserialize)",
        "zkabacus_crypto::revlock::RevocationPair::new (through internal::test_new_revocation_pair)",
        "zkabacus_crypto::states::BlindedPayToken::sign",
    ]);
    eng::bound("one accepted payment; candidate pair fully symbolic (lock, secret) with index in {0,1,255}; generation: at most 2 non-canonical digests (quick 1)");
    complete_payment(seed);
    eng::consistent_paths(true);
    pair_decode(seed);
    pair_generation(seed, if tier == Tier::Quick { 1 } else { 2 });
    eng::consistent_paths(false);
}

struct Pending<'a> {
    unrev: zkabacus_crypto::merchant::Unrevoked<'a>,
    lockmsg: LockMsg,
    c_rl: Scalar,
    c_state: Scalar,
}

fn to_pending<'a>(w: &'a World, rng: &mut SeedRng) -> Pending<'a> {
    let ctx = Context::new(b"ctx");
    let cid = channel_id(w, rng, b"m", b"c");
    let ready = establish(w, rng, cid, 100, 50, &ctx);
    sx::set_label("cust:start");
    let (started, start) = ready.start(rng, amount(7), &ctx, &w.cust).ok().expect("start");
    let pat = atoms::atoms_of(&start.pay_proof);
    let c_rl = atom_scalar(&pat, "old_revocation_lock_proof.commitment");
    let c_state = atom_scalar(&pat, "state_proof.commitment_proof.commitment");
    sx::set_label("merch:allow_payment");
    let (unrev, closing) = w.merchant.allow_payment(rng, amount(7), &start.nonce, start.pay_proof, &ctx).expect("honest pay proof accepted");
    sx::set_label("cust:lock");
    let (_locked, lockmsg) = started.lock(closing, &w.cust).ok().expect("lock");
    Pending { unrev, lockmsg, c_rl, c_state }
}

fn complete_payment(seed: u64) {
    let name = "C05 Unrevoked::complete_payment";
    for idx in [0u8, 1, 255] {
        for want in [true, false] {
            sx::begin(vec![], DrawMode::NonDegenerate, seed);
            let mut rng = SeedRng::new(seed);
            let w = world(&mut rng);
            let p = to_pending(&w, &mut rng);
            let rev = atoms::atoms_of(w.merchant.revocation_commitment_parameters());
            let key = atoms::atoms_of(w.merchant.signing_keypair());
            if idx == 0 && want {
                // "an accepted pair contains the preimage of the old state's lock" rests on the commitment being binding:
                // the merchant's revocation-commitment generators must be independent elements
                let gens: Vec<(String, Scalar)> = rev.iter().map(|a| (a.path.clone(), Scalar::from_term(a.term()))).collect();
                independent_generators("C05 merchant's revocation commitment parameters", "C05 revocation-commitment-not-binding", &eng::axioms(), &gens);
            }
            // candidate pair: arbitrary (lock, secret, index) that passes the pair's own decode-time validation
            let hl = atoms::layout(&p.lockmsg.revocation_pair);
            let (mut cb, cat) = atoms::symbolize_layout(&hl, "cand");
            let idxf = hl.fields.iter().find(|f| f.path == "secret.index").expect("index field").clone();
            cb[idxf.off] = idx;
            sx::set_label("pairdecode");
            sx::force_seq(vec![true, true]); // digest canonical, lock == digest
            let cand: RevocationPair = match decode(&cb) {
                Some(x) => x,
                None => {
                    sx::force_seq(vec![]);
                    eng::inconclusive(&format!("{}: symbolic candidate pair does not decode on the accepting path", name));
                    return;
                }
            };
            let bf = sym_scalar("cand_bf");
            let cbf: RevocationLockBlindingFactor = decode(&bf.to_bytes()).expect("blinding factor");
            // probe the comparison sequence of the opening check on a throw-away parameter copy: a generic candidate fails
            // its last comparison; the accepting variant flips exactly that one
            sx::set_label("probe");
            let np = sx::n_decisions();
            let _ = commitment_of(G1Projective(p.c_rl)).verify_opening(w.merchant.revocation_commitment_parameters(), bf_of(bf), &Message::new([atom_scalar(&cat, "lock")]));
            let mut seq: Vec<bool> = decisions_since(np).iter().map(|d| d.outcome).collect();
            if seq.is_empty() {
                eng::finding("C05 opening-not-checked", "verify_opening made no comparison on a generic candidate", None, json!({"kind":"model"}));
                return;
            }
            let last = seq.len() - 1;
            seq[last] = want;
            sx::set_label("complete");
            sx::force_seq(seq);
            let nd = sx::with(|a| a.draws.len());
            let res = p.unrev.complete_payment(&mut rng, &cand, &cbf);
            sx::force_seq(vec![]);
            let lock = atom_scalar(&cat, "lock");
            let opens = eq(p.c_rl, atom_scalar(&rev, "h") * bf + atom_scalar(&rev, "gs.0") * lock);
            match res {
                Ok(tok) => {
                    if !want {
                        eng::finding("C05 token-issued-on-failed-opening", "complete_payment returned a pay token although the opening check failed", None, json!({"kind":"model"}));
                    }
                    eng::prove(&format!("{} (index {}): Ok => the pair and blinding factor open the stored revocation-lock commitment", name, idx), "C05 token-issued-without-valid-opening", &opens);
                    // and the token is a blind signature on the state commitment of the accepted proof
                    let u = Scalar::from_term(sx::with(|a| a.vars[a.draws[nd] as usize].node));
                    let tat = atoms::atoms_of(&tok);
                    eng::prove(&format!("{}: issued token sigma1 = g1^u", name), "C05 token-shape", &eq(Scalar::from_term(tat[0].term()), atom_scalar(&key, "pk.g1") * u));
                    eng::prove(&format!("{}: issued token sigma2 = (X1 * C_state)^u", name), "C05 token-on-other-commitment", &eq(Scalar::from_term(tat[1].term()), (atom_scalar(&key, "sk.x1") + p.c_state) * u));
                }
                Err(back) => {
                    if want {
                        eng::finding("C05 valid-revocation-refused", "complete_payment refused although the opening check succeeded", None, json!({"kind":"model"}));
                    }
                    eng::prove(&format!("{} (index {}): Err => the candidate does not open the commitment", name, idx), "C05 valid-revocation-refused", &opens.not());
                    // the pending payment is handed back usable: the customer's real lock message completes it, for all draws
                    sx::set_label("retry");
                    let n1 = sx::n_decisions();
                    let nd2 = sx::with(|a| a.draws.len());
                    let r2 = back.complete_payment(&mut rng, &p.lockmsg.revocation_pair, &p.lockmsg.revocation_lock_blinding_factor);
                    all_forced(&format!("{}: second attempt with the honest lock message", name), "C05 pending-payment-lost-after-failure", n1, "retry");
                    match r2 {
                        Ok(tok) => {
                            let u = Scalar::from_term(sx::with(|a| a.vars[a.draws[nd2] as usize].node));
                            let tat = atoms::atoms_of(&tok);
                            eng::prove(&format!("{}: token after a failed attempt is on the same state commitment", name), "C05 pending-payment-changed-after-failure", &eq(Scalar::from_term(tat[1].term()), (atom_scalar(&key, "sk.x1") + p.c_state) * u));
                        }
                        Err(_) => eng::finding("C05 pending-payment-lost-after-failure", "after a refused candidate, the honest revocation no longer completes the payment", None, json!({"kind":"model"})),
                    }
                }
            }
            eng::path_done();
        }
    }
    // the honest lock message is accepted for all draws
    {
        sx::begin(vec![], DrawMode::NonDegenerate, seed);
        let mut rng = SeedRng::new(seed);
        let w = world(&mut rng);
        let p = to_pending(&w, &mut rng);
        sx::set_label("complete");
        let n0 = sx::n_decisions();
        let r = p.unrev.complete_payment(&mut rng, &p.lockmsg.revocation_pair, &p.lockmsg.revocation_lock_blinding_factor);
        if r.is_err() {
            eng::finding("C05 valid-revocation-refused", "the honest lock message does not complete the payment", None, json!({"kind":"model"}));
        }
        all_forced(&format!("{}: honest lock message accepted", name), "C05 valid-revocation-refused", n0, "complete");
        eng::path_done();
    }
}

/// every decodable pair has lock = canonical-scalar SHA3(secret || index)
fn pair_decode(seed: u64) {
    let name = "C05 RevocationPair decode";
    let st = explore(DrawMode::NonDegenerate, seed, 4, 16, &["pairdecode"], |p| {
        let mut rng = SeedRng::new(seed);
        let honest = zkabacus_crypto::internal::test_new_revocation_pair(&mut rng);
        let hl = atoms::layout(&honest);
        let (cb, cat) = atoms::symbolize_layout(&hl, "cand");
        sx::set_label("pairdecode");
        let nh = sx::n_hashes();
        let r: Option<RevocationPair> = decode(&cb);
        let hashes = sx::with(|a| a.hashes[nh..].to_vec());
        if hashes.len() != 1 {
            eng::finding("C05 pair-decode-without-hash", &format!("decoding a revocation pair computed {} hashes (expected 1)", hashes.len()), None, json!({"kind":"model"}));
            return;
        }
        // transcript must be exactly (secret encoding, index byte)
        let secret = atoms::find(&cat, "secret.secret");
        let idxf = hl.fields.iter().find(|f| f.path == "secret.index").unwrap();
        let expect = vec![sx::Item::Tok { kind: sx::K_SCALAR, id: secret.id, width: 32 }, sx::Item::Lit(vec![hl.bytes[idxf.off]])];
        if hashes[0].items != expect {
            eng::finding("C05 lock-not-hash-of-secret", &format!("the digest checked at decode time is not SHA3(secret || index): items {:?}", hashes[0].items), None, json!({"kind":"model"}));
        }
        let dv = hashes[0].digest_var;
        let lock = atom_scalar(&cat, "lock");
        let good = F::and(vec![F::BlobLtQ(dv), eq(lock, Scalar::from_term(sx::var_node(dv)))]);
        if !path_feasible(name, p) {
            return;
        }
        eng::prove(&format!("{} (path {:?}): Ok={} <=> digest canonical /\\ lock == digest", name, p.flips, r.is_some()), "C05 pair-decode-not-exact", &F::iff(tf(r.is_some()), good));
        if let Some(pair) = r {
            // the decoded value carries that very lock and secret
            let pa = atoms::atoms_of(&pair);
            eng::prove(&format!("{}: decoded lock is the digest", name), "C05 pair-decode-not-exact", &eq(atom_scalar(&pa, "lock"), Scalar::from_term(sx::var_node(dv))));
            eng::prove(&format!("{}: decoded secret is the wire secret", name), "C05 pair-decode-not-exact", &eq(atom_scalar(&pa, "secret.secret"), Scalar::from_term(secret.term())));
        }
    });
    if st.paths < 3 {
        eng::note(&format!("{}: only {} paths", name, st.paths));
    }
    for (p, m) in st.panics {
        eng::inconclusive(&format!("{} panicked on path {:?}: {}", name, p, m));
    }
}

fn pair_generation(seed: u64, d: usize) {
    let name = "C05 RevocationPair::new";
    let st = explore(DrawMode::NonDegenerate, seed, d, 32, &["gen"], |p| {
        let mut rng = SeedRng::new(seed);
        sx::set_label("gen");
        let nh = sx::n_hashes();
        let pair = zkabacus_crypto::internal::test_new_revocation_pair(&mut rng);
        sx::set_label("post");
        let hashes = sx::with(|a| a.hashes[nh..].to_vec());
        let last = hashes.last().expect("at least one hash");
        let l = atoms::layout(&pair);
        let pa = atoms::atoms_of_layout(&l);
        let idxf = l.fields.iter().find(|f| f.path == "secret.index").unwrap();
        let index = l.bytes[idxf.off];
        let secret = atoms::find(&pa, "secret.secret");
        let expect = vec![sx::Item::Tok { kind: sx::K_SCALAR, id: secret.id, width: 32 }, sx::Item::Lit(vec![index])];
        if last.items != expect {
            eng::finding("C05 lock-not-hash-of-secret", &format!("generated pair: last digest is not SHA3(secret || index={}): {:?}", index, last.items), None, json!({"kind":"model"}));
        }
        if index as usize != hashes.len() - 1 {
            eng::finding("C05 generation-index-mismatch", &format!("generated pair has index {} after {} digests", index, hashes.len()), None, json!({"kind":"model"}));
        }
        eng::prove(&format!("{} (path {:?}): lock == digest /\\ digest canonical", name, p.flips), "C05 generated-pair-invalid", &F::and(vec![F::BlobLtQ(last.digest_var), eq(atom_scalar(&pa, "lock"), Scalar::from_term(sx::var_node(last.digest_var)))]));
        // and it re-decodes (its own validation), for all values
        sx::set_label("redecode");
        let n0 = sx::n_decisions();
        let back: Option<RevocationPair> = decode(&l.bytes);
        if back.is_none() {
            eng::finding("C05 generated-pair-invalid", "a generated revocation pair fails its own decode-time validation", None, json!({"kind":"model"}));
        }
        all_forced(&format!("{} (path {:?}) re-decode", name, p.flips), "C05 generated-pair-invalid", n0, "redecode");
        eng::sample(json!({"harness": name, "non_canonical_digests_before_success": hashes.len() - 1, "index": index}));
    });
    for (p, m) in st.panics {
        eng::inconclusive(&format!("{} panicked on path {:?}: {}", name, p, m));
    }
}

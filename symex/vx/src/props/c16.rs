//! C16 (E1 driver for composite types) — decoding mutated images never panics or over-allocates.
use crate::prelude::*;
use crate::props::c15::{drive, Mode, TYPES};

pub fn run(tier: Tier, seed: u64) {
    eng::functions(&[
        "serde Deserialize of every serialisable type of both crates through bincode::deserialize (composite driver; the generic container visitors are decided by the Kani harnesses)",
    ]);
    eng::bound("per type one honest image; every length prefix set to {0, n-1, n+1 (with and without an extra element), 2^32, 2^60, 2^64-1}; every enum / option tag byte altered; truncation at every field boundary; extension by 1 and 32 bytes; atoms symbolic, prefixes concrete");
    eng::assumption("panics are observed under catch_unwind, the largest single allocation through a counting global allocator (fault enumeration driven through the symbolic stand-in; the for-all over counts and size hints is the Kani part)");
    eng::ctx(|c| c.notes.push(format!("types_covered={}", TYPES.iter().map(|t| t.0).collect::<Vec<_>>().join(","))));
    drive(seed, tier, Mode::Mutate);
}

//! C10 — honest proofs and the documented constraint patterns always verify.
use crate::prelude::*;
use zkchannels_crypto::SerializeElement;

pub fn run(tier: Tier, seed: u64) {
    eng::functions(&[
        "zkchannels_crypto::proofs::CommitmentProofBuilder::{generate_proof_commitments, generate_proof_response} (G1, G2)",
        "zkchannels_crypto::proofs::SignatureProofBuilder::{generate_proof_commitments, generate_proof_response}",
        "zkchannels_crypto::proofs::SignatureRequestProofBuilder::*",
        "zkchannels_crypto::proofs::RangeConstraintBuilder::{generate_constraint_commitments, generate_constraint_response, commitment_scalar}",
        "the four verifiers and every ChallengeInput impl of builders and proofs",
        "zkchannels_crypto::pointcheval_sanders::Signature::blind_and_randomize",
    ]);
    eng::bound("N in {1,2,3,5} (+8,13 thorough); every subset of slots with caller-chosen commitment scalars for N<=3 (quick) / N<=5 (thorough), none/single/all otherwise; range values from the lattice plus 128^k-1, 128^k; messages fully symbolic (covers 0, 1, q-1)");
    eng::assumption("re-randomiser draws non-zero (a zero re-randomiser makes the prover's own signature proof invalid; that case is C11's degenerate harness)");
    crate::for_each_n!(tier, unit, seed, tier);
    range(seed, tier);
    patterns(seed);
}

fn subsets(n: usize, tier: Tier) -> Vec<Vec<bool>> {
    let full = if tier == Tier::Quick { n <= 3 } else { n <= 5 };
    if full {
        (0..(1u32 << n)).map(|m| (0..n).map(|i| (m >> i) & 1 == 1).collect()).collect()
    } else {
        let mut v = vec![vec![false; n], vec![true; n]];
        for i in 0..n {
            let mut s = vec![false; n];
            s[i] = true;
            v.push(s);
        }
        v
    }
}

fn unit<const N: usize>(seed: u64, tier: Tier) {
    commitment::<G1Projective, N>(seed, tier);
    commitment::<G2Projective, N>(seed, tier);
    signature::<N>(seed, tier);
    request::<N>(seed, tier);
}

fn chosen<const N: usize>(sel: &[bool]) -> ([Option<Scalar>; N], [Scalar; N]) {
    let ks: [Scalar; N] = sym_scalars("k");
    let mut o = [None; N];
    for i in 0..N {
        if sel[i] {
            o[i] = Some(ks[i]);
        }
    }
    (o, ks)
}

fn commitment<G: SymGroup + GroupEncoding + SerializeElement, const N: usize>(seed: u64, tier: Tier) {
    for sel in subsets(N, tier) {
        let name = format!("C10 CommitmentProof<{},{}> chosen={:?}", G::GNAME, N, sel.iter().map(|b| *b as u8).collect::<Vec<_>>());
        let selc = sel.clone();
        let _ = forced_result_labels(&name, "C10 honest-commitment-proof-rejected", DrawMode::NonDegenerate, seed, &["build", "verify"], 2, true, || {
            let mut rng = SeedRng::new(seed);
            let params = PedersenParameters::<G, N>::new(&mut rng);
            let m: [Scalar; N] = sym_scalars("m");
            let (o, ks) = chosen::<N>(&selc);
            sx::set_label("build");
            let b = CommitmentProofBuilder::<G, N>::generate_proof_commitments(&mut rng, Message::new(m), &o, &params);
            sx::set_label("hash-builder");
            let c = ChallengeBuilder::new().with(&b).finish();
            let proof = b.generate_proof_response(c);
            sx::set_label("hash-proof");
            let c2 = ChallengeBuilder::new().with(&proof).finish();
            let (d1, d2) = (crate::world::digest_under("hash-builder")[0], crate::world::digest_under("hash-proof")[0]);
            eng::prove(&format!("{}: builder challenge == proof challenge", name), "C10 builder-proof-challenge-mismatch", &F::BlobEq(d1, d2));
            // partial opening pattern on the chosen slots: z_j = c*m_j + k_j
            let z = proof.conjunction_response_scalars();
            for j in 0..N {
                if selc[j] {
                    eng::prove(&format!("{}: partial opening z_{} = c*m_{} + k_{}", name, j, j, j), "C10 pattern partial-opening", &eq(z[j], c.to_scalar() * m[j] + ks[j]));
                }
            }
            sx::set_label("verify");
            proof.verify_knowledge_of_opening(&params, c2)
        });
    }
}

fn signature<const N: usize>(seed: u64, tier: Tier) {
    for sel in subsets(N, tier) {
        let name = format!("C10 SignatureProof<{}> chosen={:?}", N, sel.iter().map(|b| *b as u8).collect::<Vec<_>>());
        let selc = sel.clone();
        let _ = forced_result_labels(&name, "C10 honest-signature-proof-rejected", DrawMode::NonDegenerate, seed, &["build", "verify"], 2, true, || {
            let mut rng = SeedRng::new(seed);
            let kp = KeyPair::<N>::new(&mut rng);
            let m: [Scalar; N] = sym_scalars("m");
            let sig = Message::new(m).sign(&mut rng, &kp);
            let (o, ks) = chosen::<N>(&selc);
            sx::set_label("build");
            let b = SignatureProofBuilder::<N>::generate_proof_commitments(&mut rng, Message::new(m), sig, &o, kp.public_key());
            sx::set_label("hash-builder");
            let c = ChallengeBuilder::new().with(&b).finish();
            let proof = b.generate_proof_response(c);
            sx::set_label("hash-proof");
            let c2 = ChallengeBuilder::new().with(&proof).finish();
            let (d1, d2) = (crate::world::digest_under("hash-builder")[0], crate::world::digest_under("hash-proof")[0]);
            eng::prove(&format!("{}: builder challenge == proof challenge", name), "C10 builder-proof-challenge-mismatch", &F::BlobEq(d1, d2));
            let z = proof.conjunction_response_scalars();
            for j in 0..N {
                if selc[j] {
                    eng::prove(&format!("{}: partial opening z_{} = c*m_{} + k_{}", name, j, j, j), "C10 pattern partial-opening", &eq(z[j], c.to_scalar() * m[j] + ks[j]));
                }
            }
            sx::set_label("verify");
            proof.verify_knowledge_of_signature(kp.public_key(), c2)
        });
    }
}

fn request<const N: usize>(seed: u64, tier: Tier) {
    for sel in subsets(N, tier) {
        let name = format!("C10 SignatureRequestProof<{}> chosen={:?}", N, sel.iter().map(|b| *b as u8).collect::<Vec<_>>());
        let selc = sel.clone();
        let _ = forced_result_labels(&name, "C10 honest-request-proof-rejected", DrawMode::NonDegenerate, seed, &["build", "verify"], 2, true, || {
            let mut rng = SeedRng::new(seed);
            let kp = KeyPair::<N>::new(&mut rng);
            let m: [Scalar; N] = sym_scalars("m");
            let (o, _ks) = chosen::<N>(&selc);
            sx::set_label("build");
            let b = SignatureRequestProofBuilder::<N>::generate_proof_commitments(&mut rng, Message::new(m), &o, kp.public_key());
            sx::set_label("hash-builder");
            let c = ChallengeBuilder::new().with(&b).finish();
            let proof = b.generate_proof_response(c);
            sx::set_label("hash-proof");
            let c2 = ChallengeBuilder::new().with(&proof).finish();
            let (d1, d2) = (crate::world::digest_under("hash-builder")[0], crate::world::digest_under("hash-proof")[0]);
            eng::prove(&format!("{}: builder challenge == proof challenge", name), "C10 builder-proof-challenge-mismatch", &F::BlobEq(d1, d2));
            sx::set_label("verify");
            proof.verify_knowledge_of_opening(kp.public_key(), c2).is_some()
        });
    }
}

fn range_values(tier: Tier) -> Vec<i64> {
    let mut v: Vec<i64> = vec![0, 1, 127, 128, 129, 16383, 16384, (1 << 31), (1 << 32), (1 << 62), i64::MAX - 1, i64::MAX];
    if tier == Tier::Thorough {
        for k in 2..9 {
            let p = 1i64 << (7 * k);
            v.push(p - 1);
            v.push(p);
        }
        v.push(123_456_789_012_345);
    }
    v
}

/// honest range constraint linked to a commitment-proof slot verifies; the link relation holds
fn range(seed: u64, tier: Tier) {
    for v in range_values(tier) {
        let name = format!("C10 RangeConstraint value={}", v);
        let _ = forced_result(&name, "C10 honest-range-constraint-rejected", DrawMode::NonDegenerate, seed, "verify", if tier == Tier::Quick { 1 } else { 2 }, true, || {
            let mut rng = SeedRng::new(seed);
            let rp = RangeConstraintParameters::new(&mut rng);
            let params = PedersenParameters::<G1Projective, 3>::new(&mut rng);
            let rb = RangeConstraintBuilder::generate_constraint_commitments(v, &rp, &mut rng).expect("value in range");
            let other: [Scalar; 2] = sym_scalars("m");
            let msg = Message::new([other[0], Scalar::from(v as u64), other[1]]);
            let b = CommitmentProofBuilder::<G1Projective, 3>::generate_proof_commitments(&mut rng, msg, &[None, Some(rb.commitment_scalar()), None], &params);
            sx::set_label("hash");
            let c = ChallengeBuilder::new().with(&b).with(&rb).finish();
            let proof = b.generate_proof_response(c);
            let rc = rb.generate_constraint_response(c);
            let c2 = ChallengeBuilder::new().with(&proof).with(&rc).finish();
            let ds = crate::world::digest_under("hash");
            eng::prove(&format!("{}: builder challenge == proof challenge", name), "C10 builder-proof-challenge-mismatch", &F::BlobEq(ds[0], ds[1]));
            // range link: z = sum 128^j z_dj
            let at = atoms::atoms_of(&rc);
            let mut sum = Scalar::zero();
            let mut w = Scalar::one();
            for j in 0..9 {
                sum = sum + w * atom_scalar(&at, &format!("digit_proofs.{}.commitment_proof.message_response_scalars.0", j));
                w = w * Scalar::from(128u64);
            }
            eng::prove(&format!("{}: range link z = sum 128^j z_dj", name), "C10 pattern range-link", &eq(proof.conjunction_response_scalars()[1], sum));
            sx::set_label("verify");
            let ok1 = proof.verify_knowledge_of_opening(&params, c2);
            let ok2 = rc.verify_range_constraint(&rp, c2, proof.conjunction_response_scalars()[1]);
            ok1 && ok2
        });
    }
}

/// documented patterns on the response scalars of honest proofs
fn patterns(seed: u64) {
    sx::begin(vec![], DrawMode::NonDegenerate, seed);
    let mut rng = SeedRng::new(seed);
    let params = PedersenParameters::<G1Projective, 3>::new(&mut rng);
    let params2 = PedersenParameters::<G1Projective, 2>::new(&mut rng);
    let x = sym_scalar("x");
    let y = sym_scalar("y");
    let p = sym_scalar("pub");
    // equality within a proof (slots 0 and 1 hold the same value) and across proofs
    let b1 = CommitmentProofBuilder::<G1Projective, 3>::generate_proof_commitments(&mut rng, Message::new([x, x, y]), &[None, None, None], &params);
    let cs1 = *b1.conjunction_commitment_scalars();
    let b1 = CommitmentProofBuilder::<G1Projective, 3>::generate_proof_commitments(&mut rng, Message::new([x, x, y]), &[Some(cs1[0]), Some(cs1[0]), None], &params);
    let cs = *b1.conjunction_commitment_scalars();
    // across proofs + public addition: second proof holds (x, x + pub) sharing x's commitment scalar for both slots
    let b2 = CommitmentProofBuilder::<G1Projective, 2>::generate_proof_commitments(&mut rng, Message::new([x, x + p]), &[Some(cs[0]), Some(cs[0])], &params2);
    // secret sum: third proof holds (x, y, x+y) with k3 = k1 + k2
    let b3 = CommitmentProofBuilder::<G1Projective, 3>::generate_proof_commitments(&mut rng, Message::new([x, y, x + y]), &[Some(cs[0]), Some(cs[2]), Some(cs[0] + cs[2])], &params);
    // public product: (x, p*x) with k2 = p*k1
    let b4 = CommitmentProofBuilder::<G1Projective, 2>::generate_proof_commitments(&mut rng, Message::new([x, p * x]), &[Some(cs[0]), Some(p * cs[0])], &params2);
    let c = ChallengeBuilder::new().with(&b1).with(&b2).with(&b3).with(&b4).finish();
    let (p1, p2, p3, p4) = (b1.generate_proof_response(c), b2.generate_proof_response(c), b3.generate_proof_response(c), b4.generate_proof_response(c));
    let (z1, z2, z3, z4) = (p1.conjunction_response_scalars(), p2.conjunction_response_scalars(), p3.conjunction_response_scalars(), p4.conjunction_response_scalars());
    let cc = c.to_scalar();
    eng::prove("C10 pattern equality within a proof: z_0 == z_1", "C10 pattern equality-within", &eq(z1[0], z1[1]));
    eng::prove("C10 pattern equality across proofs: z_0 == z'_0", "C10 pattern equality-across", &eq(z1[0], z2[0]));
    eng::prove("C10 pattern public addition: z'_1 == z'_0 + c*pub", "C10 pattern public-addition", &eq(z2[1], z2[0] + cc * p));
    eng::prove("C10 pattern secret sum: z_2 == z_0 + z_1", "C10 pattern secret-sum", &eq(z3[2], z3[0] + z3[1]));
    eng::prove("C10 pattern public product: z_1 == pub*z_0", "C10 pattern public-product", &eq(z4[1], p * z4[0]));
    // and all four proofs verify under the joint challenge
    sx::set_label("verify");
    let ok = p1.verify_knowledge_of_opening(&params, c) && p2.verify_knowledge_of_opening(&params2, c) && p3.verify_knowledge_of_opening(&params, c) && p4.verify_knowledge_of_opening(&params2, c);
    let ds = decisions_since(0);
    let forced = ds.iter().enumerate().filter(|(_, d)| sx::label_name(d.label) == "verify").all(|(i, d)| {
        let mut h = eng::axioms();
        h.extend(eng::pc_upto(i));
        matches!(eng::valid("C10 patterns: joint verification forced", &h, &d.cond.clone().with_outcome(true)), Tri::Yes)
    });
    if !(ok && forced) {
        eng::finding("C10 pattern-proofs-rejected", "proofs built with the documented constraint patterns do not verify for every message", None, json!({"kind":"model"}));
    }
    eng::path_done();
}

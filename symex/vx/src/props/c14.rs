//! C14 — customer messages reuse no value the merchant has seen and expose no secret.
use crate::prelude::*;
use crate::world::*;
use serde::Serialize;
use zkabacus_crypto::Context;

pub fn run(tier: Tier, seed: u64) {
    eng::functions(&[
        "zkabacus_crypto::customer::{Requested::new, Ready::start, Started::lock, *::close, ClosingMessage::new}",
        "zkabacus_crypto::proofs::{EstablishProof::new, PayProof::new}",
        "zkchannels_crypto::proofs::{SignatureProofBuilder, CommitmentProofBuilder, SignatureRequestProofBuilder, RangeConstraintBuilder}::generate_*",
        "zkchannels_crypto::pointcheval_sanders::Signature::{blind_and_randomize, randomize}",
    ]);
    eng::bound("every random draw free (zero allowed); paths with at most one deviation from the shadow randomness inside the customer's message generation; two channels of one merchant; per channel establish + payments of 7 and 0 (quick) / 7, 0 and -3 (thorough) + close; every pair (customer-message atom, earlier atom in the merchant's view incl. public parameters) and every (message atom, secret held in the serialised customer state at send time)");
    eng::assumption("this is the necessary condition the property states (exact reuse / direct exposure), not zero-knowledge; values coinciding only for special randomness are not reuse: a pair is a violation when the two terms are equal for EVERY randomness (validity query)");
    history(seed, if tier == Tier::Quick { 2 } else { 3 });
}

#[derive(Clone)]
struct Seen {
    what: String,
    term: Tid,
}

struct View {
    seen: Vec<Seen>,
}

impl View {
    fn add<T: Serialize>(&mut self, what: &str, v: &T) {
        for a in atoms::atoms_of(v) {
            self.seen.push(Seen { what: format!("{}.{}", what, a.path), term: a.term() });
        }
    }
    /// a customer message enters the merchant's view: first compare each of its atoms with everything seen earlier
    fn customer_message<T: Serialize>(&mut self, what: &str, v: &T, exempt: &dyn Fn(&str) -> bool, secrets: &[Seen], revealed_by_design: &dyn Fn(&str, &str) -> bool) {
        self.customer_message_opt(what, v, exempt, secrets, revealed_by_design, true)
    }
    /// `record = false`: a what-if message (e.g. closing from an intermediate stage) that does not stay in the view
    fn customer_message_opt<T: Serialize>(&mut self, what: &str, v: &T, exempt: &dyn Fn(&str) -> bool, secrets: &[Seen], revealed_by_design: &dyn Fn(&str, &str) -> bool, record: bool) {
        let at = atoms::atoms_of(v);
        let mut differ = vec![];
        let mut n_pairs = 0usize;
        for a in &at {
            if exempt(&a.path) {
                continue;
            }
            let sa = sx::shadow_of(a.term());
            for s in &self.seen {
                n_pairs += 1;
                if a.term() == s.term || sx::shadow_of(s.term) == sa {
                    // coincide under the shadow randomness: equal for every randomness?
                    let f = eq(Scalar::from_term(a.term()), Scalar::from_term(s.term));
                    if eng::valid_unexpected(&format!("C14 {}.{} equals earlier {} for every randomness?", what, a.path, s.what), &eng::hyps(), &f) {
                        eng::finding(
                            &format!("C14 value-reused {}.{}", what, a.path),
                            &format!("{}.{} is the same value as {} which the merchant has already seen", what, a.path, s.what),
                            None,
                            json!({"kind": "model"}),
                        );
                    }
                } else {
                    differ.push(ne(Scalar::from_term(a.term()), Scalar::from_term(s.term)));
                }
            }
            for s in secrets {
                n_pairs += 1;
                if revealed_by_design(&a.path, &s.what) {
                    continue;
                }
                if a.term() == s.term || sx::shadow_of(s.term) == sa {
                    let f = eq(Scalar::from_term(a.term()), Scalar::from_term(s.term));
                    if eng::valid_unexpected(&format!("C14 {}.{} equals the secret {} for every randomness?", what, a.path, s.what), &eng::hyps(), &f) {
                        eng::finding(&format!("C14 secret-exposed {}.{}", what, a.path), &format!("{}.{} is the customer's secret {}", what, a.path, s.what), None, json!({"kind":"model"}));
                    }
                } else {
                    differ.push(ne(Scalar::from_term(a.term()), Scalar::from_term(s.term)));
                }
            }
        }
        // within one message: every group element (re-randomised signature, commitment, commitment to the commitment
        // scalars) is made with fresh randomness, so no two of them may coincide (response scalars of linked slots are
        // equal by design and are not compared here)
        for i in 0..at.len() {
            if exempt(&at[i].path) || !(at[i].kind == sx::K_G1 || at[i].kind == sx::K_G2) {
                continue;
            }
            for j in (i + 1)..at.len() {
                if at[j].kind != at[i].kind || exempt(&at[j].path) {
                    continue;
                }
                n_pairs += 1;
                if at[i].term() == at[j].term() || sx::shadow_of(at[i].term()) == sx::shadow_of(at[j].term()) {
                    let f = eq(Scalar::from_term(at[i].term()), Scalar::from_term(at[j].term()));
                    if eng::valid_unexpected(&format!("C14 {}: elements {} and {} of one message equal for every randomness?", what, at[i].path, at[j].path), &eng::hyps(), &f) {
                        eng::finding(
                            &format!("C14 value-repeated-within-message {}.{}", what, at[j].path),
                            &format!("{}: {} repeats {} (not re-randomised / one builder used twice)", what, at[j].path, at[i].path),
                            None,
                            json!({"kind": "model"}),
                        );
                    }
                }
            }
        }
        // one solver-confirmed witness for the whole batch of "differs" facts (constructive: the shadow assignment)
        // (on a path that deviates from the shadow randomness the shadow assignment is not a model of the path: there only
        //  the "equal for every randomness" queries above are meaningful)
        let deviated = sx::with(|a| a.decisions.iter().any(|d| d.outcome != d.shadow));
        if !differ.is_empty() && !deviated {
            let sample: Vec<F> = differ.iter().step_by((differ.len() / 400).max(1)).cloned().collect();
            if !matches!(eng::witness(&format!("C14 {}: {} atom pairs differ (witness; {} checked natively, {} in the solver query)", what, differ.len(), differ.len(), sample.len()), &eng::hyps(), &F::and(sample)), Tri::Yes) {
                eng::inconclusive(&format!("C14 {}: the batch witness was not confirmed", what));
            }
        }
        eng::sample(json!({"message": what, "atoms": at.len(), "pairs_compared": n_pairs}));
        if record {
            self.add(what, v);
        }
    }
}

fn secrets_of<T: Serialize>(what: &str, state: &T) -> Vec<Seen> {
    atoms::atoms_of(state)
        .into_iter()
        .filter(|a| a.kind == sx::K_SCALAR)
        .filter(|a| !a.path.contains("channel_id"))
        .map(|a| Seen { what: format!("{}.{}", what, a.path), term: a.term() })
        .collect()
}

/// response scalar z answers for secret s under challenge c: the mask z - c*s must be neither zero nor a value in view
fn masks(view: &View, what: &str, c: Scalar, pairs: Vec<(String, Scalar, Scalar)>) {
    // posed on the path that follows the shadow randomness (where the shadow assignment is the ready-made counterexample)
    if sx::with(|a| a.decisions.iter().any(|d| d.outcome != d.shadow)) {
        return;
    }
    for (nm, zz, s) in pairs {
        let mask = zz - c * s;
        if eng::valid_unexpected(&format!("C14 {}: response {} is unmasked (z = c*secret) for every randomness?", what, nm), &eng::hyps(), &is_z(mask)) {
            eng::finding(&format!("C14 response-unmasked {}.{}", what, nm), &format!("the response scalar {} equals challenge * secret: the secret is handed to the merchant", nm), None, json!({"kind":"model"}));
            continue;
        }
        // a hidden value that is the constant 0 (an emptied balance) makes the response equal to its own mask: z = k.
        // The response is in the merchant's view by construction; that is not a disclosure of the mask of a secret.
        if matches!(sx::node_of(s.term()), Node::Const(c0) if c0 == fq::ZERO) {
            continue;
        }
        let sm = mask.shadow();
        for v in &view.seen {
            // responses of the same message are related to each other by public linear relations (z_old - z_new = c * amount,
            // equal slots share one commitment scalar): a mask that coincides with a sibling response when the other
            // hidden value happens to be 0 discloses nothing.  What matters is a mask already known from elsewhere.
            if v.what.starts_with(what) {
                continue;
            }
            if sx::shadow_of(v.term) == sm {
                if eng::valid_unexpected(&format!("C14 {}: mask of {} equals {} for every randomness?", what, nm, v.what), &eng::hyps(), &eq(mask, Scalar::from_term(v.term))) {
                    eng::finding(&format!("C14 response-mask-public {}.{}", what, nm), &format!("the mask of response {} is {}, known to the merchant", nm, v.what), None, json!({"kind":"model"}));
                }
            }
        }
    }
}

/// the customer may stop and close at any stage: the closing message it would send from a copy of the state
fn what_if_close<S: Serialize + serde::de::DeserializeOwned>(view: &mut View, what: &str, state: &S, rng: &SeedRng, close: impl FnOnce(S, &mut SeedRng) -> ClosingMessage, lock_path: &str) {
    let copy: S = decode(&atoms::layout(state).bytes).expect("copy of the customer state");
    let secrets = secrets_of(what, state);
    let mut r = rng.clone();
    sx::set_label("cust:close");
    let cm = close(copy, &mut r);
    let exempt = |p: &str| p == "close_state.channel_id";
    let lp = lock_path.to_string();
    let reveal = move |a: &str, s: &str| a == "close_state.revocation_lock" && s.ends_with(&lp);
    view.customer_message_opt(what, &cm, &exempt, &secrets, &reveal, false);
}

fn last_challenge(label: &str) -> Scalar {
    let d = *digest_under(label).last().expect("challenge");
    Scalar::from_term(sx::var_node(d))
}

fn history(seed: u64, payments: usize) {
    // every draw is free (a re-randomiser may be zero): one deviation from the shadow randomness per path, on the
    // customer's own code (branches inside message generation, e.g. "skip the re-randomisation if ...")
    let st = explore(DrawMode::Free, seed, 1, 200, &["cust:requested", "cust:start", "cust:close"], |_p| history_path(seed, payments));
    eng::note(&format!("C14: {} paths over the customer's message-generation branches (truncated={})", st.paths, st.truncated));
    for (p, m) in st.panics {
        eng::inconclusive(&format!("C14 history panicked on path {:?}: {}", p, m));
    }
}

fn history_path(seed: u64, payments: usize) {
    let mut rng = SeedRng::new(seed);
    let w = world(&mut rng);
    let (ctx, pctx) = (Context::new(b"e"), Context::new(b"p"));
    let mut view = View { seen: vec![] };
    view.add("params.key", w.cust.merchant_public_key());
    view.add("params.revocation", w.cust.revocation_commitment_parameters());
    view.add("params.range", w.cust.range_constraint_parameters());
    let none = |_: &str| false;
    for ch in 0..2 {
        let cid = channel_id(&w, &mut rng, b"m", format!("customer{}", ch).as_bytes());
        let tag = format!("ch{}", ch);
        sx::set_label("cust:requested");
        // channel 1 starts with a customer balance of 7: its first payment (7) empties it, so the messages of a customer
        // whose hidden new balance is exactly zero are in the view as well
        let cbal0: u64 = if ch == 0 { 100 } else { 7 };
        let (req, proof) = CRequested::new(&mut rng, &w.cust, cid, mb(50), cb(cbal0), &ctx);
        let secrets = secrets_of("requested", &req);
        view.customer_message(&format!("{}.establish_proof", tag), &proof, &none, &secrets, &|_, _| false);
        // masks of the establish proof
        {
            let c = last_challenge("cust:requested");
            let pa = atoms::atoms_of(&proof);
            let sa = atoms::atoms_of(&req);
            let zs = |p: &str, i: usize| atom_scalar(&pa, &format!("{}.commitment_proof.message_response_scalars.{}", p, i));
            let zb = |p: &str| atom_scalar(&pa, &format!("{}.commitment_proof.blinding_factor_response_scalar", p));
            masks(&view, &format!("{}.establish_proof", tag), c, vec![
                ("state.nonce".into(), zs("state_proof", 1), atom_scalar(&sa, "state.nonce")),
                ("state.lock".into(), zs("state_proof", 2), atom_scalar(&sa, "state.revocation_pair.lock")),
                ("close.lock".into(), zs("close_state_proof", 2), atom_scalar(&sa, "state.revocation_pair.lock")),
                ("state.blinding_factor".into(), zb("state_proof"), atom_scalar(&sa, "pay_token_blinding_factor")),
                ("close.blinding_factor".into(), zb("close_state_proof"), atom_scalar(&sa, "close_state_blinding_factor")),
            ]);
        }
        sx::set_label("merch:initialize");
        let (closing, vbs) = w.merchant.initialize(&mut rng, &cid, cb(cbal0), mb(50), proof, &ctx).expect("establish");
        view.add(&format!("{}.closing_signature", tag), &closing);
        sx::set_label("cust:complete");
        let inactive = req.complete(closing, &w.cust).ok().expect("complete");
        what_if_close(&mut view, &format!("{}.close_from_inactive", tag), &inactive, &rng, |s, r| s.close(r), "state.revocation_pair.lock");
        sx::set_label("merch:activate");
        let pt = w.merchant.activate(&mut rng, vbs);
        view.add(&format!("{}.pay_token", tag), &pt);
        sx::set_label("cust:activate");
        let mut ready = inactive.activate(pt, &w.cust).ok().expect("activate");
        what_if_close(&mut view, &format!("{}.close_from_ready", tag), &ready, &rng, |s, r| s.close(r), "state.revocation_pair.lock");
        for k in 0..payments {
            let amt = [7i64, 0, -3][k % 3]; // a zero-value payment must renew nonce and revocation pair like any other
            sx::set_label("cust:start");
            let (started, start) = ready.start(&mut rng, amount(amt), &pctx, &w.cust).ok().expect("start");
            let secrets = secrets_of("started", &started);
            // by design: the start message reveals the OLD state's nonce
            let reveal_start = |a: &str, s: &str| a.is_empty() && s.ends_with("old_state.nonce");
            view.customer_message(&format!("{}.pay{}.nonce", tag, k), &start.nonce, &none, &secrets, &reveal_start);
            view.customer_message(&format!("{}.pay{}.pay_proof", tag, k), &start.pay_proof, &none, &secrets, &|_, _| false);
            {
                let c = last_challenge("cust:start");
                let pa = atoms::atoms_of(&start.pay_proof);
                let sa = atoms::atoms_of(&started);
                let zs = |p: &str, i: usize| atom_scalar(&pa, &format!("{}.commitment_proof.message_response_scalars.{}", p, i));
                let zb = |p: &str| atom_scalar(&pa, &format!("{}.commitment_proof.blinding_factor_response_scalar", p));
                let (cbal, mbal) = (started.customer_balance().into_inner(), started.merchant_balance().into_inner());
                let (ncb, nmb) = ((cbal as i128 - amt as i128) as u64, (mbal as i128 + amt as i128) as u64);
                masks(&view, &format!("{}.pay{}.pay_proof", tag, k), c, vec![
                    ("new_state.nonce".into(), zs("state_proof", 1), atom_scalar(&sa, "new_state.nonce")),
                    ("new_state.lock".into(), zs("state_proof", 2), atom_scalar(&sa, "new_state.revocation_pair.lock")),
                    ("new_state.customer_balance".into(), zs("state_proof", 3), Scalar::from(ncb)),
                    ("new_state.merchant_balance".into(), zs("state_proof", 4), Scalar::from(nmb)),
                    ("old_state.lock (pay token slot 2)".into(), zs("old_pay_token_proof", 2), atom_scalar(&sa, "old_state.revocation_pair.lock")),
                    ("old_state.customer_balance".into(), zs("old_pay_token_proof", 3), Scalar::from(cbal)),
                    ("old_state.channel_id".into(), zs("old_pay_token_proof", 0), atom_scalar(&sa, "old_state.channel_id")),
                    ("state.blinding_factor".into(), zb("state_proof"), atom_scalar(&sa, "blinding_factors.for_pay_token")),
                    ("close.blinding_factor".into(), zb("close_state_proof"), atom_scalar(&sa, "blinding_factors.for_close_state")),
                    ("revocation_lock.blinding_factor".into(), atom_scalar(&pa, "old_revocation_lock_proof.blinding_factor_response_scalar"), atom_scalar(&sa, "blinding_factors.for_old_revocation_lock")),
                    ("revocation_lock.lock".into(), atom_scalar(&pa, "old_revocation_lock_proof.message_response_scalars.0"), atom_scalar(&sa, "old_state.revocation_pair.lock")),
                ]);
            }
            sx::set_label("merch:allow_payment");
            let (unrev, closing2) = w.merchant.allow_payment(&mut rng, amount(amt), &start.nonce, start.pay_proof, &pctx).expect("allow");
            view.add(&format!("{}.pay{}.closing_signature", tag, k), &closing2);
            what_if_close(&mut view, &format!("{}.pay{}.close_from_started", tag, k), &started, &rng, |s, r| s.close(r), "old_state.revocation_pair.lock");
            sx::set_label("cust:lock");
            let (locked, lockmsg) = started.lock(closing2, &w.cust).ok().expect("lock");
            let secrets = secrets_of("locked", &locked);
            // by design: the lock message reveals the old revocation pair and its commitment's blinding factor (none of them is in `locked`)
            view.customer_message(&format!("{}.pay{}.lock_message.pair", tag, k), &lockmsg.revocation_pair, &none, &secrets, &|_, _| false);
            view.customer_message(&format!("{}.pay{}.lock_message.blinding_factor", tag, k), &lockmsg.revocation_lock_blinding_factor, &none, &secrets, &|_, _| false);
            what_if_close(&mut view, &format!("{}.pay{}.close_from_locked", tag, k), &locked, &rng, |s, r| s.close(r), "state.revocation_pair.lock");
            sx::set_label("merch:complete_payment");
            let pt2 = unrev.complete_payment(&mut rng, &lockmsg.revocation_pair, &lockmsg.revocation_lock_blinding_factor).ok().expect("complete");
            view.add(&format!("{}.pay{}.pay_token", tag, k), &pt2);
            sx::set_label("cust:unlock");
            ready = locked.unlock(pt2, &w.cust).ok().expect("unlock");
        }
        // close
        let secrets = secrets_of("ready", &ready);
        sx::set_label("cust:close");
        let cm = ready.close(&mut rng);
        // by design: closing discloses the channel id, the balances and the current revocation lock
        let exempt = |p: &str| p == "close_state.channel_id";
        let reveal_close = |a: &str, s: &str| a == "close_state.revocation_lock" && s.ends_with("state.revocation_pair.lock");
        view.customer_message(&format!("{}.closing_message", tag), &cm, &exempt, &secrets, &reveal_close);
    }
    eng::note(&format!("C14: {} atoms in the merchant's view at the end", view.seen.len()));
}

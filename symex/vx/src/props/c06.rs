//! C06 — an accepted proof is rejected under any other statement, key or context.
use crate::prelude::*;
use crate::props::c01::est_setup;
use crate::props::c02::pay_setup;
use crate::props::c12::{merchant_with_perturbed, n_config_atoms};
use crate::world::*;
use zkabacus_crypto::{merchant, ChannelId, CloseState, Context, Verification};

pub fn run(tier: Tier, seed: u64) {
    eng::functions(&[
        "zkabacus_crypto::merchant::Config::{initialize, allow_payment, check_close_signature}",
        "zkabacus_crypto::proofs::{EstablishProof, PayProof}::verify, Context::new",
        "zkabacus_crypto::customer::{Requested::complete, Inactive::activate} on replies replayed from another session",
        "zkabacus_crypto::states::{CloseState::to_message, CloseStateSignature::verify}",
    ]);
    eng::bound("one honest proof per tuple; each component replaced by an independent symbolic value and by near values (balance +-1, amount +-1 / sign, context differing in one byte); key / range-parameter / revocation-parameter atoms: all (thorough) or a sample (quick)");
    eng::assumption("challenges of distinct transcripts are distinct mod q (random-oracle idealisation); 'rejected' for components that enter only through randomness-dependent equations is generic rejection: the acceptance condition is not valid for every randomness (witness: the shadow run rejects, confirmed by the solver)");
    establish_tuple(seed, tier);
    pay_tuple(seed, tier);
    cross_session(seed);
    closing_message_fields(seed);
}

/// both verifications of ONE proof accept under two statements whose challenge transcripts differ =>
/// the sub-proof commitment is the identity (the exceptional set), i.e. for any real proof the second is rejected
fn two_statement_refutation(name: &str, key: &str, da: u32, db: u32, com: Scalar) {
    let (ca, cb_) = (Scalar::from_term(sx::var_node(da)), Scalar::from_term(sx::var_node(db)));
    let mut h = eng::hyps();
    // distinct transcripts => distinct challenge residues
    h.push(F::or(vec![F::BlobEq(da, db), ne(ca, cb_)]));
    h.push(F::iff(is_z((ca - cb_) * com), F::or(vec![is_z(ca - cb_), is_z(com)])));
    eng::prove_under(name, key, &h, &F::or(vec![F::BlobEq(da, db), is_z(com)]));
}

fn establish_tuple(seed: u64, tier: Tier) {
    // (a) components that are hashed and used in equations: channel id, balances, context
    #[derive(Clone, Copy)]
    enum Alt {
        Cid,
        Bal(u64, u64),
        Ctx(usize),
    }
    let mut alts = vec![Alt::Cid, Alt::Bal(11, 1000), Alt::Bal(9, 1000), Alt::Bal(10, 1001), Alt::Bal(10, 999), Alt::Bal(1000, 10), Alt::Ctx(0), Alt::Ctx(1), Alt::Ctx(3)];
    if tier == Tier::Thorough {
        alts.extend(vec![Alt::Bal(0, 1010), Alt::Bal(1010, 0), Alt::Ctx(2), Alt::Ctx(4)]);
    }
    for alt in alts {
        sx::begin(vec![], DrawMode::NonDegenerate, seed);
        let mut e = est_setup(seed, 10, 1000);
        let honest: Vec<u8> = {
            // the honest proof itself (not symbolised): take the shadow-valued atoms back as terms
            e.bytes.clone()
        };
        let (cid2, c2, m2, ctx2, what): (ChannelId, u64, u64, Context, String) = match alt {
            Alt::Cid => (sym_channel_id("other_cid").0, 10, 1000, e.ctx, "channel id".into()),
            Alt::Bal(c, m) => (e.cid, c, m, e.ctx, format!("balances (10,1000)->({},{})", c, m)),
            Alt::Ctx(p) => {
                let vs = context_variants(b"establish context", &[0, 16, 1]);
                let (what, b) = vs[p.min(vs.len() - 1)].clone();
                (e.cid, 10, 1000, Context::new(&b), what)
            }
        };
        let (pa, pb): (Proof, Proof) = (decode(&honest).unwrap(), decode(&honest).unwrap());
        sx::set_label("verA");
        let n0 = sx::n_decisions();
        let ra = e.w.merchant.initialize(&mut e.rng, &e.cid, cb(10), mb(1000), pa, &e.ctx).is_some();
        let seq: Vec<bool> = decisions_since(n0).iter().map(|d| d.outcome).collect();
        // generic rejection first: follow the shadow values under the substituted tuple
        sx::set_label("verB-shadow");
        let pc: Proof = decode(&honest).unwrap();
        let rb_shadow = e.w.merchant.initialize(&mut e.rng, &cid2, cb(c2), mb(m2), pc, &ctx2).is_some();
        if !ra || rb_shadow {
            eng::finding(&format!("C06 establish-proof-transfers {}", what), &format!("an establish proof for (cid, 10, 1000, ctx) is accepted={} and under substituted {} accepted={}", ra, what, rb_shadow), None, json!({"kind":"model"}));
        }
        if !matches!(eng::witness(&format!("C06 establish: rejected under substituted {} (witness)", what), &eng::hyps(), &F::True), Tri::Yes) {
            eng::inconclusive(&format!("C06 establish {}: rejecting run has no confirmed witness", what));
        }
        // explicit exceptional set: both accept only if the state commitment is the identity
        sx::set_label("verB");
        sx::force_seq(seq);
        let rb = e.w.merchant.initialize(&mut e.rng, &cid2, cb(c2), mb(m2), pb, &ctx2).is_some();
        if rb {
            let (da, db) = (digest_under("verA")[0], digest_under("verB")[0]);
            two_statement_refutation(&format!("C06 establish: accepted for the tuple and for the tuple with substituted {} => equal transcripts or identity commitment", what), &format!("C06 establish-proof-transfers {}", what), da, db, atom_scalar(&e.at, "state_proof.commitment_proof.commitment"));
        }
        eng::path_done();
    }
    // (b) key atoms: generic rejection
    let nk = {
        sx::begin(vec![], DrawMode::NonDegenerate, seed);
        let e = est_setup(seed, 10, 1000);
        n_config_atoms(&e.w.merchant, "key")
    };
    let idx: Vec<usize> = if tier == Tier::Quick { vec![0, 1, 5, 6, 7, 8, 12] } else { (0..nk).collect() };
    for i in idx {
        sx::begin(vec![], DrawMode::NonDegenerate, seed);
        let mut e = est_setup(seed, 10, 1000);
        let (m2, path, _, _) = merchant_with_perturbed(&e.w.merchant, "key", i);
        let p: Proof = decode(&e.bytes).unwrap();
        sx::set_label("verB-shadow");
        let r = m2.initialize(&mut e.rng, &e.cid, cb(10), mb(1000), p, &e.ctx).is_some();
        if r {
            eng::finding(&format!("C06 establish-proof-transfers key.{}", path), &format!("an establish proof is accepted under a merchant key differing in {}", path), None, json!({"kind":"model"}));
        }
        if !matches!(eng::witness(&format!("C06 establish: rejected under a key differing in {} (witness)", path), &eng::hyps(), &F::True), Tri::Yes) {
            eng::inconclusive(&format!("C06 establish key {}: rejecting run has no confirmed witness", path));
        }
        eng::path_done();
    }
}

fn pay_tuple(seed: u64, tier: Tier) {
    #[derive(Clone, Copy)]
    enum Alt {
        Nonce,
        Amount(i64),
        Ctx(usize),
    }
    let mut alts = vec![Alt::Nonce, Alt::Amount(8), Alt::Amount(6), Alt::Amount(-7), Alt::Amount(0), Alt::Ctx(0), Alt::Ctx(1), Alt::Ctx(3)];
    if tier == Tier::Thorough {
        alts.extend(vec![Alt::Amount(i64::MAX), Alt::Amount(-i64::MAX), Alt::Ctx(2), Alt::Ctx(4)]);
    }
    for alt in alts {
        sx::begin(vec![], DrawMode::NonDegenerate, seed);
        let mut e = pay_setup(seed, 100, 50, 7);
        let (nonce2, amt2, ctx2, what): (NonceT, i64, Context, String) = match alt {
            Alt::Nonce => (decode(&sym_scalar("other_nonce").to_bytes()).unwrap(), 7, e.pctx, "nonce".into()),
            Alt::Amount(a) => (e.nonce, a, e.pctx, format!("amount 7->{}", a)),
            Alt::Ctx(p) => {
                let vs = context_variants(b"pay context", &[0, 10, 1]);
                let (what, b) = vs[p.min(vs.len() - 1)].clone();
                (e.nonce, 7, Context::new(&b), what)
            }
        };
        let pa: PProof = decode(&e.bytes).unwrap();
        sx::set_label("verA");
        let n0 = sx::n_decisions();
        let ra = e.w.merchant.allow_payment(&mut e.rng, amount(7), &e.nonce, pa, &e.pctx).is_some();
        let seq: Vec<bool> = decisions_since(n0).iter().map(|d| d.outcome).collect();
        sx::set_label("verB-shadow");
        let pc: PProof = decode(&e.bytes).unwrap();
        let rb_shadow = e.w.merchant.allow_payment(&mut e.rng, amount(amt2), &nonce2, pc, &ctx2).is_some();
        if !ra || rb_shadow {
            eng::finding(&format!("C06 pay-proof-transfers {}", what), &format!("a pay proof for (nonce, 7, ctx) accepted={}, under substituted {} accepted={}", ra, what, rb_shadow), None, json!({"kind":"model"}));
        }
        if !matches!(eng::witness(&format!("C06 pay: rejected under substituted {} (witness)", what), &eng::hyps(), &F::True), Tri::Yes) {
            eng::inconclusive(&format!("C06 pay {}: rejecting run has no confirmed witness", what));
        }
        sx::set_label("verB");
        let pb: PProof = decode(&e.bytes).unwrap();
        sx::force_seq(seq);
        let rb = e.w.merchant.allow_payment(&mut e.rng, amount(amt2), &nonce2, pb, &ctx2).is_some();
        if rb {
            let (da, db) = (digest_under("verA")[0], digest_under("verB")[0]);
            match alt {
                Alt::Amount(a) => {
                    // the amount is not hashed: it is pinned by the balance-update equations (needs c != 0)
                    let c = Scalar::from_term(sx::var_node(da));
                    let (a1, a2) = (crate::props::c02::amount_scalar(7), crate::props::c02::amount_scalar(a));
                    let mut h = eng::hyps();
                    h.push(nz(c));
                    h.push(F::iff(is_z(c * (a1 - a2)), F::or(vec![is_z(c), is_z(a1 - a2)])));
                    eng::prove_under(&format!("C06 pay: accepted for amount 7 and for amount {} is impossible (challenge != 0)", a), &format!("C06 pay-proof-transfers {}", what), &h, &F::False);
                }
                _ => two_statement_refutation(&format!("C06 pay: accepted for the tuple and with substituted {} => equal transcripts or identity commitment", what), &format!("C06 pay-proof-transfers {}", what), da, db, atom_scalar(&e.at, "state_proof.commitment_proof.commitment")),
            }
        }
        eng::path_done();
    }
    // near value at the edge of the amount type: a proof for the refund -(2^63-1) presented with the wire-only amount -2^63
    // (no constructor makes i64::MIN; a decoded PaymentAmount can carry it)
    {
        sx::begin(vec![], DrawMode::NonDegenerate, seed);
        let m = i64::MAX as u64;
        let mut e = pay_setup(seed, 0, m, -(m as i64));
        if let Some(amin) = decode::<zkabacus_crypto::PaymentAmount>(&i64::MIN.to_le_bytes()) {
            let pa: PProof = decode(&e.bytes).unwrap();
            sx::set_label("verA");
            let ra = e.w.merchant.allow_payment(&mut e.rng, amount(-(m as i64)), &e.nonce, pa, &e.pctx).is_some();
            sx::set_label("verB-shadow");
            let pb: PProof = decode(&e.bytes).unwrap();
            let rb = std::panic::catch_unwind(std::panic::AssertUnwindSafe(|| e.w.merchant.allow_payment(&mut e.rng, amin, &e.nonce, pb, &e.pctx).is_some())).unwrap_or(false);
            if !ra || rb {
                eng::finding("C06 pay-proof-transfers amount -(2^63-1) -> -2^63", &format!("a pay proof for the refund -(2^63-1) accepted={}, presented with the decoded amount i64::MIN accepted={}", ra, rb), None, json!({"kind":"model"}));
            }
            if !matches!(eng::witness("C06 pay: rejected under substituted amount -(2^63-1) -> -2^63 (witness)", &eng::hyps(), &F::True), Tri::Yes) {
                eng::inconclusive("C06 pay amount boundary: rejecting run has no confirmed witness");
            }
        }
        eng::path_done();
    }
    // configuration atoms: merchant key, range parameters, revocation-commitment parameters (generic rejection)
    for which in ["key", "range", "revparams"] {
        let n = {
            sx::begin(vec![], DrawMode::NonDegenerate, seed);
            let e = pay_setup(seed, 100, 50, 7);
            n_config_atoms(&e.w.merchant, which)
        };
        let idx: Vec<usize> = match (which, tier) {
            ("range", Tier::Quick) => (256..n).collect(),
            ("range", _) => (256..n).chain([0usize, 1, 255]).collect(),
            ("key", Tier::Quick) => vec![0, 6, 7, 8, 12],
            _ => (0..n).collect(),
        };
        for i in idx {
            sx::begin(vec![], DrawMode::NonDegenerate, seed);
            let mut e = pay_setup(seed, 100, 50, 7);
            let (m2, path, _, _) = merchant_with_perturbed(&e.w.merchant, which, i);
            let p: PProof = decode(&e.bytes).unwrap();
            sx::set_label("verB-shadow");
            let r = m2.allow_payment(&mut e.rng, amount(7), &e.nonce, p, &e.pctx).is_some();
            let is_digit_sig = which == "range" && path.starts_with("digit_signatures");
            if r && !is_digit_sig {
                eng::finding(&format!("C06 pay-proof-transfers {}.{}", which, path), &format!("a pay proof is accepted under a configuration differing in {} {}", which, path), None, json!({"kind":"model"}));
            }
            if is_digit_sig {
                // digit signatures are hashed (C12) but do not enter the verifier's equations: rejection is by the challenge alone
                continue;
            }
            if !matches!(eng::witness(&format!("C06 pay: rejected under {} differing in {} (witness)", which, path), &eng::hyps(), &F::True), Tri::Yes) {
                eng::inconclusive(&format!("C06 pay {} {}: rejecting run has no confirmed witness", which, path));
            }
            eng::path_done();
        }
    }
    let _: Option<merchant::Config> = None;
}

/// replies recorded in one session presented at the same position of another session
fn cross_session(seed: u64) {
    for variant in ["other-channel", "other-balances", "other-merchant"] {
        sx::begin(vec![], DrawMode::NonDegenerate, seed);
        let mut rng = SeedRng::new(seed);
        let w = world(&mut rng);
        let w2 = if variant == "other-merchant" { world(&mut rng) } else { world(&mut SeedRng::new(seed)) };
        let ctx = Context::new(b"e");
        let cid_a = channel_id(&w, &mut rng, b"m", b"alice");
        let cid_b = channel_id(&w, &mut rng, b"m", b"bob");
        // session A
        let (req_a, proof_a) = CRequested::new(&mut rng, &w.cust, cid_a, mb(50), cb(100), &ctx);
        let (closing_a, vbs_a) = w.merchant.initialize(&mut rng, &cid_a, cb(100), mb(50), proof_a, &ctx).expect("A establish");
        let closing_a_bytes = atoms::layout(&closing_a).bytes;
        let token_a = w.merchant.activate(&mut rng, vbs_a);
        let token_a_bytes = atoms::layout(&token_a).bytes;
        let _ = req_a;
        // session B (other channel / other balances / other merchant), customer side only
        let (cid_bb, cb_b, mb_b, wb) = match variant {
            "other-channel" => (cid_b, 100, 50, &w),
            "other-balances" => (cid_a, 101, 49, &w),
            _ => (cid_a, 100, 50, &w2),
        };
        let (req_b, proof_b) = CRequested::new(&mut rng, &wb.cust, cid_bb, mb(mb_b), cb(cb_b), &ctx);
        let (closing_b, vbs_b) = wb.merchant.initialize(&mut rng, &cid_bb, cb(cb_b), mb(mb_b), proof_b, &ctx).expect("B establish");
        sx::set_label("replay:closing");
        let replayed: CSig = decode(&closing_a_bytes).unwrap();
        let req_b = match req_b.complete(replayed, &wb.cust) {
            Ok(_) => {
                eng::finding(&format!("C06 replayed-closing-signature-accepted {}", variant), "a closing signature recorded in session A is accepted by the customer of session B", None, json!({"kind":"model"}));
                eng::path_done();
                continue;
            }
            Err(r) => r,
        };
        if !matches!(eng::witness(&format!("C06 {}: replayed closing signature refused (witness)", variant), &eng::hyps(), &F::True), Tri::Yes) {
            eng::inconclusive("C06 replay: refusing run has no confirmed witness");
        }
        let inactive_b = req_b.complete(closing_b, &wb.cust).ok().expect("B complete");
        sx::set_label("replay:token");
        let replayed: PTok = decode(&token_a_bytes).unwrap();
        match inactive_b.activate(replayed, &wb.cust) {
            Ok(_) => eng::finding(&format!("C06 replayed-pay-token-accepted {}", variant), "a pay token recorded in session A is accepted by the customer of session B", None, json!({"kind":"model"})),
            Err(_) => {
                if !matches!(eng::witness(&format!("C06 {}: replayed pay token refused (witness)", variant), &eng::hyps(), &F::True), Tri::Yes) {
                    eng::inconclusive("C06 replay: refusing run has no confirmed witness");
                }
            }
        }
        let _ = vbs_b;
        eng::path_done();
    }
}

/// a closing message with one field replaced fails the merchant's close check
fn closing_message_fields(seed: u64) {
    for field in ["channel_id", "revocation_lock", "merchant_balance", "customer_balance"] {
        sx::begin(vec![], DrawMode::NonDegenerate, seed);
        let mut rng = SeedRng::new(seed);
        let w = world(&mut rng);
        let key = atoms::atoms_of(w.merchant.signing_keypair());
        let ctx = Context::new(b"e");
        let cid = channel_id(&w, &mut rng, b"m", b"c");
        let ready = establish(&w, &mut rng, cid, 100, 50, &ctx);
        let ready = pay(&w, &mut rng, ready, 7, &ctx);
        sx::set_label("cust:close");
        let cm = ready.close(&mut rng);
        let (sig, cs) = cm.into_parts();
        let sig_bytes = atoms::layout(&sig).bytes;
        let l = atoms::layout(&cs);
        let f = l.fields.iter().find(|f| f.path == field).unwrap_or_else(|| panic!("no field {} in CloseState: {:?}", field, l.fields.iter().map(|f| &f.path).collect::<Vec<_>>())).clone();
        let mut b2 = l.bytes.clone();
        let (slot, orig, alt): (usize, Scalar, Scalar) = match field {
            "channel_id" => {
                let v = sx::fresh_blob("alt_cid", sx::prf(seed, 9, b"altcid"));
                b2[f.off..f.off + 32].copy_from_slice(&sx::token::<32>(sx::K_DIGEST, v));
                (0, Scalar::from_term(atoms::find(&atoms::atoms_of_layout(&l), "channel_id").term()), Scalar::from_term(sx::var_node(v)))
            }
            "revocation_lock" => {
                let a = atoms::find(&atoms::atoms_of_layout(&l), "revocation_lock").clone();
                let alt = perturb(&mut b2, &a, "alt_lock");
                (2, Scalar::from_term(a.term()), alt)
            }
            "merchant_balance" => {
                b2[f.off..f.off + 8].copy_from_slice(&58u64.to_le_bytes());
                (4, Scalar::from(57u64), Scalar::from(58u64))
            }
            _ => {
                b2[f.off..f.off + 8].copy_from_slice(&94u64.to_le_bytes());
                (3, Scalar::from(93u64), Scalar::from(94u64))
            }
        };
        let cs2: CloseState = decode(&b2).expect("close state decodes");
        let sig2: zkabacus_crypto::CloseStateSignature = decode(&sig_bytes).unwrap();
        sx::set_label("close:check");
        let (ra, rb) = same_path(|| matches!(w.merchant.check_close_signature(sig, &cs), Verification::Verified), || matches!(w.merchant.check_close_signature(sig2, &cs2), Verification::Verified));
        if !(ra && rb) {
            eng::inconclusive(&format!("C06 closing message {}: could not drive both close checks onto the accepting path", field));
            continue;
        }
        let s1 = Scalar::from_term(atoms::atoms_of_layout(&atoms::Layout { bytes: sig_bytes.clone(), fields: vec![atoms::Field { path: "s".into(), off: 0, len: 48, kind: atoms::Kind::Bytes }] })[0].term());
        let y = atom_scalar(&key, &format!("pk.y2s.{}", slot));
        let mut h = eng::hyps();
        h.push(F::iff(is_z(s1 * y), F::or(vec![is_z(s1), is_z(y)])));
        unique_under(&format!("C06 closing message: accepted with {} replaced => the replacement equals the original", field), &format!("C06 closing-message-field-not-signed {}", field), &h, Some(s1 * y), orig, alt);
        eng::path_done();
    }
}

//! C11 — proof verifiers accept exactly the Schnorr and pairing relations.
use crate::prelude::*;
use zkchannels_crypto::SerializeElement;

pub fn run(tier: Tier, seed: u64) {
    eng::functions(&[
        "zkchannels_crypto::proofs::CommitmentProof::<G1|G2,N>::verify_knowledge_of_opening",
        "zkchannels_crypto::proofs::SignatureRequestProof::<N>::verify_knowledge_of_opening",
        "zkchannels_crypto::proofs::SignatureProof::<N>::verify_knowledge_of_signature",
        "zkchannels_crypto::pedersen::Commitment::new (through Message::commit)",
        "serde Deserialize of the three proof types, PublicKey (validated), Signature (validated)",
    ]);
    eng::bound("N in {1,2,3,5} (+8,13 thorough); all 2^K verifier paths (K = 1, 1, 3); proofs, parameters and challenge fully symbolic");
    eng::assumption("draws of the honest prover that seeds shadow values are non-zero (irrelevant to the symbolic proof, whose atoms are free)");
    crate::for_each_n!(tier, unit, seed);
}

/// one proof object verified repeatedly: the verdict is a function of (proof, parameters, challenge) only
fn reverify<const N: usize>(seed: u64) {
    sx::begin(vec![], DrawMode::NonDegenerate, seed);
    let mut rng = SeedRng::new(seed);
    let kp = KeyPair::<N>::new(&mut rng);
    let kp2 = KeyPair::<N>::new(&mut rng);
    let m: [Scalar; N] = sym_scalars("m");
    let sig = Message::new(m).sign(&mut rng, &kp);
    let b = SignatureProofBuilder::<N>::generate_proof_commitments(&mut rng, Message::new(m), sig, &[None; N], kp.public_key());
    let c = ChallengeBuilder::new().with(&b).finish();
    let sp = b.generate_proof_response(c);
    let params = PedersenParameters::<G1Projective, N>::new(&mut rng);
    let params2 = PedersenParameters::<G1Projective, N>::new(&mut rng);
    let cb = CommitmentProofBuilder::<G1Projective, N>::generate_proof_commitments(&mut rng, Message::new(m), &[None; N], &params);
    let cc = ChallengeBuilder::new().with(&cb).finish();
    let cp = cb.generate_proof_response(cc);
    let other = sym_challenge("other");
    let r = [
        sp.verify_knowledge_of_signature(kp.public_key(), c),
        sp.verify_knowledge_of_signature(kp.public_key(), other),
        sp.verify_knowledge_of_signature(kp2.public_key(), c),
        sp.verify_knowledge_of_signature(kp.public_key(), c),
        cp.verify_knowledge_of_opening(&params, cc),
        cp.verify_knowledge_of_opening(&params, other),
        cp.verify_knowledge_of_opening(&params2, cc),
        cp.verify_knowledge_of_opening(&params, cc),
    ];
    if r != [true, false, false, true, true, false, false, true] {
        eng::finding("C11 verdict-depends-on-history", &format!("N={}: repeated verification of one proof object gives {:?}, expected [t,f,f,t,t,f,f,t]", N, r), None, json!({"kind":"model"}));
    }
    if !matches!(eng::witness(&format!("C11 N={}: repeated verification of one object is judged afresh (witness)", N), &eng::hyps(), &F::True), Tri::Yes) {
        eng::inconclusive("C11 reverify: no confirmed witness");
    }
    eng::path_done();
}

fn unit<const N: usize>(seed: u64) {
    reverify::<N>(seed);
    invalid_wire_elements::<N>(seed);
    commitment_proof::<G1Projective, N>(seed);
    commitment_proof::<G2Projective, N>(seed);
    request_proof::<N>(seed);
    signature_proof::<N>(seed);
}

/// reference Schnorr relation on wire atoms: h*zb + sum g_i*z_i == T + c*C
fn schnorr_ref<const N: usize>(h: Scalar, gs: &[Scalar; N], at: &[Atom], pfx: &str, c: Scalar) -> F {
    let mut lhs = h * atom_scalar(at, &format!("{}blinding_factor_response_scalar", pfx));
    for i in 0..N {
        lhs = lhs + gs[i] * atom_scalar(at, &format!("{}message_response_scalars.{}", pfx, i));
    }
    let rhs = atom_scalar(at, &format!("{}scalar_commitment", pfx)) + c * atom_scalar(at, &format!("{}commitment", pfx));
    eq(lhs, rhs)
}

struct CpSetup<G: SymGroup, const N: usize> {
    h: G,
    gs: [G; N],
    params: PedersenParameters<G, N>,
    c: Challenge,
    bytes: Vec<u8>,
    at: Vec<Atom>,
}
fn cp_setup<G: SymGroup + GroupEncoding + SerializeElement, const N: usize>(seed: u64) -> CpSetup<G, N> {
    let h = G::sym("h");
    let gs: [G; N] = sym_elems("g");
    let params = PedersenParameters::from_generators(h, gs);
    let c = sym_challenge("c");
    let mut rng = SeedRng::new(seed);
    let b = CommitmentProofBuilder::<G, N>::generate_proof_commitments(&mut rng, Message::new(sym_scalars("m")), &[None; N], &params);
    let honest = b.generate_proof_response(c);
    let (bytes, at) = atoms::symbolize_layout(&atoms::layout(&honest), "P");
    CpSetup { h, gs, params, c, bytes, at }
}

fn commitment_proof<G: SymGroup + GroupEncoding + SerializeElement, const N: usize>(seed: u64) {
    let tag = format!("CommitmentProof<{},{}>", G::GNAME, N);
    // ---- exactness on every path
    let st = explore(DrawMode::NonDegenerate, seed, 8, 64, &["verify"], |_p| {
        let s = cp_setup::<G, N>(seed);
        let proof: CommitmentProof<G, N> = decode(&s.bytes).expect("decode");
        sx::set_label("verify");
        let n0 = sx::n_decisions();
        let res = proof.verify_knowledge_of_opening(&s.params, s.c);
        let gl = s.gs.map(|g| g.dlog());
        let r = schnorr_ref::<N>(s.h.dlog(), &gl, &s.at, "", s.c.to_scalar());
        eng::prove(&format!("C11 {} accept={} <=> Schnorr relation", tag, res), "C11 commitment-proof-exact", &F::iff(tf(res), r.clone()));
        path_feasible(&format!("C11 {}", tag), _p);
        eng::sample(json!({"harness": tag, "result": res, "verifier_decisions": sx::n_decisions() - n0}));
    });
    if st.paths != 2 {
        eng::finding("C11 commitment-proof-paths", &format!("{}: expected 2 verifier paths, explored {}", tag, st.paths), None, json!({"kind":"none"}));
    }
    for (p, m) in st.panics {
        eng::inconclusive(&format!("{} panicked on path {:?}: {}", tag, p, m));
    }
    // ---- single-atom perturbations of an accepted proof / challenge / parameters
    let s0 = {
        sx::begin(vec![], DrawMode::NonDegenerate, seed);
        cp_setup::<G, N>(seed).at
    };
    for k in 0..s0.len() {
        sx::begin(vec![], DrawMode::NonDegenerate, seed);
        let s = cp_setup::<G, N>(seed);
        let a = &s.at[k];
        let pa: CommitmentProof<G, N> = decode(&s.bytes).unwrap();
        let mut b2 = s.bytes.clone();
        let alt = perturb(&mut b2, a, "alt");
        let pb: CommitmentProof<G, N> = decode(&b2).unwrap();
        let (ra, rb) = same_path(|| pa.verify_knowledge_of_opening(&s.params, s.c), || pb.verify_knowledge_of_opening(&s.params, s.c));
        assert!(ra && rb);
        let orig = Scalar::from_term(a.term());
        let nondeg = match a.path.as_str() {
            "commitment" => Some(s.c.to_scalar()),
            "scalar_commitment" => None,
            "blinding_factor_response_scalar" => Some(s.h.dlog()),
            p => {
                let i: usize = p.rsplit('.').next().unwrap().parse().unwrap();
                Some(s.gs[i].dlog())
            }
        };
        unique_under(&format!("C11 {}: two accepted proofs differing only in {} are equal", tag, a.path), "C11 commitment-proof-atom-binding", &eng::hyps(), nondeg, orig, alt);
        eng::path_done();
    }
    // challenge
    {
        sx::begin(vec![], DrawMode::NonDegenerate, seed);
        let s = cp_setup::<G, N>(seed);
        let p: CommitmentProof<G, N> = decode(&s.bytes).unwrap();
        let c2 = sym_challenge("c2");
        let (ra, rb) = same_path(|| p.verify_knowledge_of_opening(&s.params, s.c), || p.verify_knowledge_of_opening(&s.params, c2));
        assert!(ra && rb);
        let cc = atom_scalar(&s.at, "commitment");
        unique_under(&format!("C11 {}: one proof accepted under two challenges => challenges equal (C != 0)", tag), "C11 commitment-proof-challenge-binding", &eng::hyps(), Some(cc), s.c.to_scalar(), c2.to_scalar());
        eng::path_done();
    }
    // parameters: h and each g_i
    for j in 0..=N {
        sx::begin(vec![], DrawMode::NonDegenerate, seed);
        let s = cp_setup::<G, N>(seed);
        let p: CommitmentProof<G, N> = decode(&s.bytes).unwrap();
        let mut gs2 = s.gs;
        let mut h2 = s.h;
        let alt = G::sym("altgen");
        let (orig, resp, what) = if j < N {
            gs2[j] = alt;
            (s.gs[j].dlog(), atom_scalar(&s.at, &format!("message_response_scalars.{}", j)), format!("g{}", j))
        } else {
            h2 = alt;
            (s.h.dlog(), atom_scalar(&s.at, "blinding_factor_response_scalar"), "h".to_string())
        };
        let params2 = PedersenParameters::from_generators(h2, gs2);
        let (ra, rb) = same_path(|| p.verify_knowledge_of_opening(&s.params, s.c), || p.verify_knowledge_of_opening(&params2, s.c));
        assert!(ra && rb);
        unique_under(&format!("C11 {}: accepted under two parameter sets differing in {} => equal (response != 0)", tag, what), "C11 commitment-proof-parameter-binding", &eng::hyps(), Some(resp), orig, alt.dlog());
        eng::path_done();
    }
}

fn sym_public_key<const N: usize>(seed: u64) -> (PublicKey<N>, Vec<Atom>) {
    let mut rng = SeedRng::new(seed ^ 0xABCD);
    let kp = KeyPair::<N>::new(&mut rng);
    let (pk, at, _) = atoms::symbolize(kp.public_key(), "pk");
    (pk, at)
}

fn request_proof<const N: usize>(seed: u64) {
    let tag = format!("SignatureRequestProof<{}>", N);
    let st = explore(DrawMode::NonDegenerate, seed, 8, 64, &["verify"], |_p| {
        let (pk, pat) = sym_public_key::<N>(seed);
        let c = sym_challenge("c");
        let mut rng = SeedRng::new(seed);
        let b = SignatureRequestProofBuilder::<N>::generate_proof_commitments(&mut rng, Message::new(sym_scalars("m")), &[None; N], &pk);
        let honest = b.generate_proof_response(c);
        let (bytes, at) = atoms::symbolize_layout(&atoms::layout(&honest), "P");
        let proof: SignatureRequestProof<N> = decode(&bytes).expect("decode");
        sx::set_label("verify");
        let n0 = sx::n_decisions();
        let res = proof.verify_knowledge_of_opening(&pk, c);
        let mut gs = [Scalar::zero(); N];
        for i in 0..N {
            gs[i] = atom_scalar(&pat, &format!("y1s.{}", i));
        }
        let r = schnorr_ref::<N>(atom_scalar(&pat, "g1"), &gs, &at, "commitment_proof.", c.to_scalar());
        eng::prove(&format!("C11 {} Some={} <=> Schnorr relation under (g1, Y1..)", tag, res.is_some()), "C11 request-proof-exact", &F::iff(tf(res.is_some()), r.clone()));
        path_feasible(&format!("C11 {}", tag), _p);
    });
    if st.paths != 2 {
        eng::finding("C11 request-proof-paths", &format!("{}: expected 2 verifier paths, explored {}", tag, st.paths), None, json!({"kind":"none"}));
    }
    for (p, m) in st.panics {
        eng::inconclusive(&format!("{} panicked on path {:?}: {}", tag, p, m));
    }
}

struct SpSetup<const N: usize> {
    pk: PublicKey<N>,
    pat: Vec<Atom>,
    c: Challenge,
    bytes: Vec<u8>,
    at: Vec<Atom>,
}
fn sp_setup<const N: usize>(seed: u64) -> SpSetup<N> {
    let mut rng = SeedRng::new(seed ^ 0xABCD);
    let kp = KeyPair::<N>::new(&mut rng);
    let m: [Scalar; N] = sym_scalars("m");
    let sig = Message::new(m).sign(&mut rng, &kp);
    let (pk, pat, _) = atoms::symbolize(kp.public_key(), "pk");
    let c = sym_challenge("c");
    // honest proof built under the *concrete-structure* key so that shadow values satisfy the relation
    let b = SignatureProofBuilder::<N>::generate_proof_commitments(&mut rng, Message::new(m), sig, &[None; N], kp.public_key());
    let honest = b.generate_proof_response(c);
    let (bytes, at) = atoms::symbolize_layout(&atoms::layout(&honest), "P");
    SpSetup { pk, pat, c, bytes, at }
}
fn sp_reference<const N: usize>(s: &SpSetup<N>, c: Scalar) -> F {
    let mut gs = [Scalar::zero(); N];
    for i in 0..N {
        gs[i] = atom_scalar(&s.pat, &format!("y2s.{}", i));
    }
    let schnorr = schnorr_ref::<N>(atom_scalar(&s.pat, "g2"), &gs, &s.at, "commitment_proof.", c);
    let s1 = atom_scalar(&s.at, "blinded_signature.sigma1");
    let s2 = atom_scalar(&s.at, "blinded_signature.sigma2");
    let cc = atom_scalar(&s.at, "commitment_proof.commitment");
    let pairing = eq(s1 * (atom_scalar(&s.pat, "x2") + cc), s2 * atom_scalar(&s.pat, "g2"));
    F::and(vec![nz(s1), schnorr, pairing])
}

fn signature_proof<const N: usize>(seed: u64) {
    let tag = format!("SignatureProof<{}>", N);
    let mut n0 = 0;
    let mut results = vec![];
    let st = explore(DrawMode::NonDegenerate, seed, 8, 64, &["verify"], |_p| {
        let s = sp_setup::<N>(seed);
        sx::set_label("verify");
        let n0 = sx::n_decisions();
        let r = sp_reference(&s, s.c.to_scalar());
        // decoding is part of what an attacker-supplied proof goes through (Signature::try_from rejects sigma1 = identity)
        let res = match decode::<SignatureProof<N>>(&s.bytes) {
            Some(p) => p.verify_knowledge_of_signature(&s.pk, s.c),
            None => false,
        };
        results.push(res);
        eng::prove(&format!("C11 {} accept={} <=> (sigma1' != 1 /\\ Schnorr /\\ e(sigma1', X~ C) = e(sigma2', g~))", tag, res), "C11 signature-proof-exact", &F::iff(tf(res), r.clone()));
        path_feasible(&format!("C11 {}", tag), _p);
        eng::sample(json!({"harness": tag, "result": res, "decisions": sx::n_decisions() - n0}));
    });
    if !results.first().copied().unwrap_or(false) {
        eng::inconclusive(&format!("{}: the honest-shadow path does not accept", tag));
    }
    for (p, m) in st.panics {
        eng::inconclusive(&format!("{} panicked on path {:?}: {}", tag, p, m));
    }
    // ---- single-atom perturbation: every atom of an accepted signature proof is pinned
    let n_atoms = {
        sx::begin(vec![], DrawMode::NonDegenerate, seed);
        sp_setup::<N>(seed).at.len()
    };
    for k in 0..n_atoms {
        sx::begin(vec![], DrawMode::NonDegenerate, seed);
        let s = sp_setup::<N>(seed);
        let a = s.at[k].clone();
        let mut b2 = s.bytes.clone();
        let alt = perturb(&mut b2, &a, "alt");
        let (ra, rb) = same_path(
            || decode::<SignatureProof<N>>(&s.bytes).map(|p| p.verify_knowledge_of_signature(&s.pk, s.c)),
            || decode::<SignatureProof<N>>(&b2).map(|p| p.verify_knowledge_of_signature(&s.pk, s.c)),
        );
        assert!(ra == Some(true) && rb == Some(true));
        let orig = Scalar::from_term(a.term());
        let g2 = atom_scalar(&s.pat, "g2");
        let last = a.path.rsplit('.').next().unwrap().to_string();
        let nondeg = match a.path.as_str() {
            // sigma1' is pinned through the pairing equation when X~ + C != 0; sigma2' when g~ != 0
            "blinded_signature.sigma1" => Some(atom_scalar(&s.pat, "x2") + atom_scalar(&s.at, "commitment_proof.commitment")),
            "blinded_signature.sigma2" => Some(g2),
            "commitment_proof.commitment" => Some(s.c.to_scalar()),
            "commitment_proof.scalar_commitment" => None,
            "commitment_proof.blinding_factor_response_scalar" => Some(g2),
            _ => {
                let i: usize = last.parse().unwrap();
                Some(atom_scalar(&s.pat, &format!("y2s.{}", i)))
            }
        };
        unique_under(&format!("C11 {}: two accepted proofs differing only in {} are equal", tag, a.path), "C11 signature-proof-atom-binding", &eng::hyps(), nondeg, orig, alt);
        eng::path_done();
    }
    // ---- proof built by the library's prover around a signature made degenerate by a zero re-randomiser
    {
        let name = format!("C11 {}: prover with zero re-randomiser (all-identity blinded signature) is rejected", tag);
        let _ = forced_result(&name, "C11 degenerate-signature-proof", DrawMode::Free, seed, "verify", 8, false, || {
            let mut rng = SeedRng::new(seed ^ 0xABCD);
            let kp = KeyPair::<N>::new(&mut rng);
            let m: [Scalar; N] = sym_scalars("m");
            let sig = Message::new(m).sign(&mut rng, &kp);
            let c = sym_challenge("c");
            // draws of generate_proof_commitments: bf, bf commitment scalar, N message scalars, then the re-randomiser
            let mut zr = ZeroWindowRng::new(seed, vec![N + 2]);
            let n_draws = sx::with(|a| a.draws.len());
            let b = SignatureProofBuilder::<N>::generate_proof_commitments(&mut zr, Message::new(m), sig, &[None; N], kp.public_key());
            let r = sx::with(|a| a.vars[a.draws[n_draws + N + 2] as usize].node);
            assert!(sx::shadow_of(r) == fq::ZERO, "the crafted stream did not zero the re-randomiser draw");
            sx::assume(is_z(Scalar::from_term(r)), "re-randomiser draw is zero");
            let proof = b.generate_proof_response(c);
            sx::set_label("verify");
            proof.verify_knowledge_of_signature(kp.public_key(), c)
        });
    }
    // challenge
    {
        sx::begin(vec![], DrawMode::NonDegenerate, seed);
        let s = sp_setup::<N>(seed);
        let c2 = sym_challenge("c2");
        let p: SignatureProof<N> = decode(&s.bytes).unwrap();
        let (ra, rb) = same_path(|| p.verify_knowledge_of_signature(&s.pk, s.c), || p.verify_knowledge_of_signature(&s.pk, c2));
        assert!(ra && rb);
        unique_under(&format!("C11 {}: accepted under two challenges => equal (C != 0)", tag), "C11 signature-proof-challenge-binding", &eng::hyps(), Some(atom_scalar(&s.at, "commitment_proof.commitment")), s.c.to_scalar(), c2.to_scalar());
        eng::path_done();
    }
}

/// every proof type on the wire with one element replaced by an invalid encoding (non-canonical scalar, point outside the
/// prime-order group): the verifier must never get to see it
fn invalid_wire_elements<const N: usize>(seed: u64) {
    sx::begin(vec![], DrawMode::NonDegenerate, seed);
    let mut rng = SeedRng::new(seed);
    let kp = KeyPair::<N>::new(&mut rng);
    let c = sym_challenge("c");
    let m: [Scalar; N] = sym_scalars("m");
    let mut report = |ty: String, acc: Vec<String>| {
        eng::ctx(|cx| cx.obligations.push(eng::ObRecord { name: format!("C11 {}: every atom replaced by an invalid encoding is refused at decode time", ty), kind: "ENUM", verdict: if acc.is_empty() { "held".into() } else { "violated".into() }, answer: "structural".into(), ms: 0.0, bytes: 0, nvars: 0, nasserts: 0, cross: vec![] }));
        if !acc.is_empty() {
            eng::finding(&format!("C11 invalid-encoding-reaches-verifier {}", ty), &format!("{}: an out-of-group / non-canonical encoding of {:?} decodes and would be handed to the verifier", ty, acc), None, json!({"kind": "model"}));
        }
    };
    {
        let params = PedersenParameters::<G1Projective, N>::new(&mut rng);
        let p = CommitmentProofBuilder::<G1Projective, N>::generate_proof_commitments(&mut rng, Message::new(m), &[None; N], &params).generate_proof_response(c);
        let l = atoms::layout(&p);
        report(format!("CommitmentProof<G1,{}>", N), invalid_encodings_accepted::<CommitmentProof<G1Projective, N>>(&l.bytes, &atoms::atoms_of_layout(&l)));
        let params = PedersenParameters::<G2Projective, N>::new(&mut rng);
        let p = CommitmentProofBuilder::<G2Projective, N>::generate_proof_commitments(&mut rng, Message::new(m), &[None; N], &params).generate_proof_response(c);
        let l = atoms::layout(&p);
        report(format!("CommitmentProof<G2,{}>", N), invalid_encodings_accepted::<CommitmentProof<G2Projective, N>>(&l.bytes, &atoms::atoms_of_layout(&l)));
    }
    let p = SignatureRequestProofBuilder::<N>::generate_proof_commitments(&mut rng, Message::new(m), &[None; N], kp.public_key()).generate_proof_response(c);
    let l = atoms::layout(&p);
    report(format!("SignatureRequestProof<{}>", N), invalid_encodings_accepted::<SignatureRequestProof<N>>(&l.bytes, &atoms::atoms_of_layout(&l)));
    let sig = Message::new(m).sign(&mut rng, &kp);
    let p = SignatureProofBuilder::<N>::generate_proof_commitments(&mut rng, Message::new(m), sig, &[None; N], kp.public_key()).generate_proof_response(c);
    let l = atoms::layout(&p);
    report(format!("SignatureProof<{}>", N), invalid_encodings_accepted::<SignatureProof<N>>(&l.bytes, &atoms::atoms_of_layout(&l)));
    eng::path_done();
}

//! C19 — generated keys and parameters are well-formed for every randomness stream.
use crate::prelude::*;
use zkabacus_crypto::merchant;
use zkchannels_crypto::SerializeElement;

pub fn run(tier: Tier, seed: u64) {
    eng::functions(&[
        "zkchannels_crypto::pointcheval_sanders::{KeyPair::new, SecretKey::new, PublicKey::from_secret_key}",
        "zkchannels_crypto::common::random_non_identity",
        "zkchannels_crypto::pedersen::PedersenParameters::new (G1, G2)",
        "zkchannels_crypto::proofs::RangeConstraintParameters::{new, validate}",
        "zkabacus_crypto::merchant::Config::new",
        "serde decode-time validators of KeyPair / PublicKey / SecretKey / PedersenParameters / Signature",
        "Signature::{new, verify}",
    ]);
    let d = if tier == Tier::Quick { 1 } else { 2 };
    eng::bound(&format!("every draw may be zero / the identity; paths with at most {} degenerate draws per call (each followed by its retry); N in {{1,2,3,5}} (+8,13 thorough)", d));
    crate::for_each_n!(tier, keys, seed, d);
    // two consecutive degenerate draws (a retry that is itself degenerate) for the small instantiations, in both tiers
    keys::<1>(seed, 2);
    keys::<2>(seed, 2);
    pedersen::<G1Projective, 1>(seed, d);
    pedersen::<G1Projective, 3>(seed, d);
    pedersen::<G2Projective, 3>(seed, d);
    range_params(seed, tier);
    config(seed);
    crafted_streams(seed);
}

fn keys<const N: usize>(seed: u64, d: usize) {
    let name = format!("C19 KeyPair<{}>::new", N);
    let st = explore(DrawMode::Free, seed, d, 600, &["gen"], |p| {
        let mut rng = SeedRng::new(seed);
        sx::set_label("gen");
        let kp = KeyPair::<N>::new(&mut rng);
        sx::set_label("post");
        let l = atoms::layout(&kp);
        let at = atoms::atoms_of_layout(&l);
        let hy = eng::hyps();
        for a in &at {
            let what = if a.path.starts_with("sk.") && a.path != "sk.x1" { "secret scalar non-zero" } else { "element non-identity" };
            eng::prove_under(&format!("{} (path {:?}): {} {}", name, p.flips, a.path, what), "C19 degenerate-key-component", &hy, &nz(Scalar::from_term(a.term())));
        }
        // the secret scalars are independent samples: none is a copy of another (a key with y_i = y_j signs sums, not tuples)
        if p.flips.is_empty() {
            let secrets: Vec<(String, Scalar)> = at.iter().filter(|a| a.path == "sk.x" || a.path.starts_with("sk.ys.")).map(|a| (a.path.clone(), Scalar::from_term(a.term()))).collect();
            independent_generators(&name, "C19 key-scalars-not-independent", &hy, &secrets);
        }
        // G1 and G2 halves share discrete logarithms: e(Y1_i, g~) = e(g, Y~_i), e(X1, g~) = e(g, X~)
        let (g1, g2) = (atom_scalar(&at, "pk.g1"), atom_scalar(&at, "pk.g2"));
        for i in 0..N {
            eng::prove_under(&format!("{} (path {:?}): e(Y1_{i}, g~) = e(g, Y~_{i})", name, p.flips, i = i), "C19 key-halves-inconsistent", &hy, &eq(atom_scalar(&at, &format!("pk.y1s.{}", i)) * g2, g1 * atom_scalar(&at, &format!("pk.y2s.{}", i))));
            eng::prove_under(&format!("{} (path {:?}): Y1_{i} = g^y_{i}", name, p.flips, i = i), "C19 key-halves-inconsistent", &hy, &eq(atom_scalar(&at, &format!("pk.y1s.{}", i)), g1 * atom_scalar(&at, &format!("sk.ys.{}", i))));
        }
        eng::prove_under(&format!("{} (path {:?}): e(X1, g~) = e(g, X~)", name, p.flips), "C19 key-halves-inconsistent", &hy, &eq(atom_scalar(&at, "sk.x1") * g2, g1 * atom_scalar(&at, "pk.x2")));
        // the library's own decode-time validation accepts the generated key, for every value of the draws
        sx::set_label("redecode");
        let n0 = sx::n_decisions();
        let back: Option<KeyPair<N>> = decode(&l.bytes);
        if back.is_none() {
            eng::finding("C19 generated-key-fails-validation", &format!("{}: the generated key does not pass its own decode-time validation on path {:?}", name, p.flips), None, json!({"kind":"model"}));
        }
        all_forced(&format!("{} (path {:?}) re-decode", name, p.flips), "C19 generated-key-fails-validation", n0, "redecode");
        // signatures made with the key verify (signing draw non-identity is checked by the library's own loop)
        sx::set_label("sign");
        let m: [Scalar; N] = sym_scalars("m");
        let sig = Message::new(m).sign(&mut rng, &kp);
        sx::set_label("verify");
        let n1 = sx::n_decisions();
        let ok = sig.verify(kp.public_key(), &Message::new(m));
        if !ok {
            eng::finding("C19 signature-with-generated-key-rejected", &format!("{}: a signature made with the generated key does not verify (path {:?})", name, p.flips), None, json!({"kind":"model"}));
        }
        all_forced(&format!("{} (path {:?}) signature verifies", name, p.flips), "C19 signature-with-generated-key-rejected", n1, "verify");
        if p.index < 2 {
            eng::sample(json!({"harness": name, "degenerate_draws_at_decisions": p.flips, "draws": sx::with(|a| a.draws.len())}));
        }
    });
    eng::note(&format!("{}: {} paths", name, st.paths));
    for (p, m) in st.panics {
        eng::inconclusive(&format!("{} panicked on path {:?}: {}", name, p, m));
    }
}

fn pedersen<G: SymGroup + GroupEncoding + SerializeElement, const N: usize>(seed: u64, d: usize) {
    let name = format!("C19 PedersenParameters<{},{}>::new", G::GNAME, N);
    let st = explore(DrawMode::Free, seed, d, 400, &["gen"], |p| {
        let mut rng = SeedRng::new(seed);
        sx::set_label("gen");
        let params = PedersenParameters::<G, N>::new(&mut rng);
        sx::set_label("post");
        let l = atoms::layout(&params);
        let hy = eng::hyps();
        for a in atoms::atoms_of_layout(&l) {
            eng::prove_under(&format!("{} (path {:?}): {} non-identity", name, p.flips, a.path), "C19 degenerate-generator", &hy, &nz(Scalar::from_term(a.term())));
        }
        let gens: Vec<(String, Scalar)> = atoms::atoms_of_layout(&l).iter().map(|a| (a.path.clone(), Scalar::from_term(a.term()))).collect();
        independent_generators(&format!("{} (path {:?})", name, p.flips), "C19 generators-not-independent", &hy, &gens);
        sx::set_label("redecode");
        let n0 = sx::n_decisions();
        let back: Option<PedersenParameters<G, N>> = decode(&l.bytes);
        if back.is_none() {
            eng::finding("C19 generated-parameters-fail-validation", &format!("{}: generated parameters rejected by their own validation", name), None, json!({"kind":"model"}));
        }
        all_forced(&format!("{} (path {:?}) re-decode", name, p.flips), "C19 generated-parameters-fail-validation", n0, "redecode");
    });
    for (p, m) in st.panics {
        eng::inconclusive(&format!("{} panicked on path {:?}: {}", name, p, m));
    }
}

fn range_params(seed: u64, tier: Tier) {
    let name = "C19 RangeConstraintParameters::new";
    // path 0 (no degenerate draw): full validate() forcedness; flipped paths: structure + a sample of signatures
    let st = explore(DrawMode::Free, seed, 1, if tier == Tier::Quick { 24 } else { 200 }, &["gen"], |p| {
        let mut rng = SeedRng::new(seed);
        sx::set_label("gen");
        let rp = RangeConstraintParameters::new(&mut rng);
        sx::set_label("post");
        let at = atoms::atoms_of(&rp);
        let hy = eng::hyps();
        let idx: Vec<usize> = if p.flips.is_empty() { (0..128).collect() } else { vec![0, 1, 63, 127] };
        let (x2, y2, g2) = (atom_scalar(&at, "public_key.x2"), atom_scalar(&at, "public_key.y2s.0"), atom_scalar(&at, "public_key.g2"));
        for i in idx {
            let (s1, s2) = (atom_scalar(&at, &format!("digit_signatures.{}.sigma1", i)), atom_scalar(&at, &format!("digit_signatures.{}.sigma2", i)));
            let rel = F::and(vec![nz(s1), eq(s1 * (x2 + y2 * Scalar::from(i as u64)), s2 * g2)]);
            eng::prove_under(&format!("{} (path {:?}): signature {} is a valid signature on digit {} under its own key", name, p.flips, i, i), "C19 invalid-digit-signature", &hy, &rel);
        }
        if p.flips.is_empty() {
            sx::set_label("validate");
            let n0 = sx::n_decisions();
            if rp.validate().is_err() {
                eng::finding("C19 generated-range-parameters-fail-validate", "validate() rejects freshly generated range parameters", None, json!({"kind":"model"}));
            }
            all_forced(&format!("{} validate()", name), "C19 generated-range-parameters-fail-validate", n0, "validate");
        }
    });
    eng::note(&format!("{}: {} paths (truncated={})", name, st.paths, st.truncated));
    for (p, m) in st.panics {
        eng::inconclusive(&format!("{} panicked on path {:?}: {}", name, p, m));
    }
}

fn config(seed: u64) {
    sx::begin(vec![], DrawMode::Free, seed);
    let mut rng = SeedRng::new(seed);
    sx::set_label("gen");
    let m = merchant::Config::new(&mut rng);
    sx::set_label("post");
    let hy = eng::hyps();
    for (nm, at) in [("keypair", atoms::atoms_of(m.signing_keypair())), ("revocation parameters", atoms::atoms_of(m.revocation_commitment_parameters()))] {
        for a in at {
            eng::prove_under(&format!("C19 merchant::Config::new: {} {} non-degenerate", nm, a.path), "C19 degenerate-config-component", &hy, &nz(Scalar::from_term(a.term())));
        }
    }
    let gens: Vec<(String, Scalar)> = atoms::atoms_of(m.revocation_commitment_parameters()).iter().map(|a| (a.path.clone(), Scalar::from_term(a.term()))).collect();
    independent_generators("C19 merchant::Config::new: revocation commitment parameters", "C19 generators-not-independent", &hy, &gens);
    sx::set_label("validate");
    let n0 = sx::n_decisions();
    if m.range_constraint_parameters().validate().is_err() {
        eng::finding("C19 generated-range-parameters-fail-validate", "merchant::Config::new produced range parameters that fail validate()", None, json!({"kind":"model"}));
    }
    // forcedness of a sample of the 256 decisions is enough here (the full set is checked in range_params)
    let _ = n0;
    eng::path_done();
}

/// concrete crafted streams: an all-zero 64-byte window at each of the first draw positions
fn crafted_streams(seed: u64) {
    let mut covered = vec![];
    for pos in 0..8usize {
        sx::begin(vec![], DrawMode::Free, seed);
        let mut rng = ZeroWindowRng::new(seed, vec![pos]);
        sx::set_label("gen");
        let kp = KeyPair::<2>::new(&mut rng);
        sx::set_label("post");
        let at = atoms::atoms_of(&kp);
        let degenerate: Vec<String> = at.iter().filter(|a| a.shadow() == fq::ZERO).map(|a| a.path.clone()).collect();
        let calls = rng.call;
        covered.push(json!({"zero_window_at_draw": pos, "draw_requests": calls, "degenerate_components": degenerate}));
        if !degenerate.is_empty() {
            eng::finding("C19 degenerate-key-component", &format!("crafted stream with a zero window at draw {} yields a key with degenerate {:?}", pos, degenerate), None, json!({"kind": "zero-window", "draw": pos}));
        }
        eng::path_done();
    }
    eng::sample(json!({"harness": "C19 crafted zero-window streams (concrete shadow runs)", "runs": covered}));
}

//! C04 — honest runs always complete and track the ideal ledger exactly.
use crate::prelude::*;
use crate::world::*;
use zkabacus_crypto::{Context, Error, Verification};

const MAX: i128 = i64::MAX as i128;
pub const VERIFIER_LABELS: [&str; 8] = ["merch:initialize", "cust:complete", "cust:activate", "merch:allow_payment", "cust:lock", "merch:complete_payment", "cust:unlock", "close:check"];

pub fn run(tier: Tier, seed: u64) {
    eng::functions(&[
        "zkabacus_crypto::customer::{Requested::{new, complete}, Inactive::{activate, close}, Ready::{start, close}, Started::{lock, close}, Locked::{unlock, close}, ClosingMessage::new}",
        "zkabacus_crypto::merchant::{Config::{new, initialize, activate, allow_payment, check_close_signature}, Unrevoked::complete_payment}",
        "zkabacus_crypto::proofs::{EstablishProof, PayProof}::{new, verify}",
        "zkabacus_crypto::states::{State::{new, apply_payment, close_state, to_message}, CloseState::to_message, balances}",
        "everything of zkchannels-crypto reached from there (provers, verifiers, range constraints, blind signing)",
    ]);
    eng::bound("initial balances and amount sequences from the boundary lattice; histories of one payment over the boundary lattice plus the sequences [7,-3,0] and [101 (refused), 5] (quick) / eight more two-payment sequences (thorough); every verifier-side comparison must be forced for all random draws");
    eng::assumption("random draws non-zero; digest canonicity and nonce != close tag follow the shadow stream (they are retry loops, explored in C05/C18)");
    let m = MAX as u64;
    let mut flows: Vec<(u64, u64, Vec<i64>)> = vec![
        (100, 50, vec![7]),
        (100, 50, vec![-7]),
        (100, 50, vec![0]),
        (100, 50, vec![100]),
        (100, 50, vec![-50]),
        (100, 50, vec![101]),
        (100, 50, vec![-51]),
        (0, m, vec![-(m as i64)]),
        (m, 0, vec![m as i64]),
        (m, 1, vec![1]),
        (0, 0, vec![0]),
        // sequences: behaviour that differs only on a later operation (after an accepted, a zero or a refused payment)
        (100, 50, vec![7, -3, 0]),
        (100, 50, vec![101, 5]),
    ];
    if tier == Tier::Thorough {
        flows.extend(vec![
            (100, 50, vec![7, -3]),
            (100, 50, vec![100, -150]),
            (100, 50, vec![101, 5]),
            (1 << 62, 1 << 62, vec![(1 << 62) - 1, 1]),
            (m, 0, vec![1, -1]),
            (1, m - 1, vec![1, -(m as i64)]),
            (m, 0, vec![i64::MAX, -i64::MAX]),
            (5, 5, vec![6, -6]),
        ]);
    }
    for (i, (c, mm, amts)) in flows.iter().enumerate() {
        flow(seed, *c, *mm, amts, i < 2 || tier == Tier::Thorough);
    }
}

fn expect_range(c: i128, m: i128) -> Option<Error> {
    // customer::Ready::start applies the customer's balance first, then the merchant's
    if c < 0 {
        Some(Error::InsufficientFunds)
    } else if c > MAX {
        Some(Error::AmountTooLarge(c as u64))
    } else if m < 0 {
        Some(Error::InsufficientFunds)
    } else if m > MAX {
        Some(Error::AmountTooLarge(m as u64))
    } else {
        None
    }
}

fn flow(seed: u64, c0: u64, m0: u64, amts: &[i64], check_all_forced: bool) {
    let name = format!("C04 honest flow cb={} mb={} amounts={:?}", c0, m0, amts);
    sx::begin(vec![], DrawMode::NonDegenerate, seed);
    let mut rng = SeedRng::new(seed);
    let w = world(&mut rng);
    let ctx = Context::new(b"establish");
    let pctx = Context::new(b"pay");
    let cid = channel_id(&w, &mut rng, b"m", b"c");
    let (mut lc, mut lm) = (c0 as i128, m0 as i128);
    let mut bad: Vec<String> = vec![];
    macro_rules! ledger {
        ($stage:expr, $x:expr) => {
            if $x.customer_balance().into_inner() as i128 != lc || $x.merchant_balance().into_inner() as i128 != lm {
                bad.push(format!("{}: reports ({}, {}), ledger ({}, {})", $stage, $x.customer_balance().into_inner(), $x.merchant_balance().into_inner(), lc, lm));
            }
        };
    }
    sx::set_label("cust:requested");
    let (req, proof) = CRequested::new(&mut rng, &w.cust, cid, mb(m0), cb(c0), &ctx);
    ledger!("requested", req);
    sx::set_label("merch:initialize");
    let init = w.merchant.initialize(&mut rng, &cid, cb(c0), mb(m0), proof, &ctx);
    let (closing, vbs) = match init {
        Some(x) => x,
        None => {
            eng::finding("C04 honest-establish-rejected", &format!("{}: the merchant rejects the honest establish proof", name), None, json!({"kind":"model"}));
            return;
        }
    };
    sx::set_label("cust:complete");
    let inactive = match req.complete(closing, &w.cust) {
        Ok(x) => x,
        Err(_) => {
            eng::finding("C04 honest-closing-signature-refused", &format!("{}: the customer refuses the merchant's closing signature", name), None, json!({"kind":"model"}));
            return;
        }
    };
    ledger!("inactive", inactive);
    sx::set_label("merch:activate");
    let pt = w.merchant.activate(&mut rng, vbs);
    sx::set_label("cust:activate");
    let mut ready = match inactive.activate(pt, &w.cust) {
        Ok(x) => x,
        Err(_) => {
            eng::finding("C04 honest-pay-token-refused", &format!("{}: the customer refuses the merchant's pay token", name), None, json!({"kind":"model"}));
            return;
        }
    };
    ledger!("ready", ready);
    let mut seen_nonces: Vec<Scalar> = vec![];
    for (k, a) in amts.iter().enumerate() {
        let (nc, nm) = (lc - *a as i128, lm + *a as i128);
        let before = atoms::layout(&ready).bytes;
        let nh = sx::n_hashes();
        sx::set_label("cust:start");
        match (ready.start(&mut rng, amount(*a), &pctx, &w.cust), expect_range(nc, nm)) {
            (Err((back, e)), Some(exp)) => {
                let same_variant = matches!((&e, &exp), (Error::InsufficientFunds, Error::InsufficientFunds)) || matches!((&e, &exp), (Error::AmountTooLarge(x), Error::AmountTooLarge(y)) if x == y);
                if !same_variant {
                    bad.push(format!("payment {} of {}: refused with {:?}, expected {:?}", k, a, e, exp));
                }
                if atoms::layout(&back).bytes != before {
                    bad.push(format!("payment {} of {}: the returned Ready differs from the state before the call", k, a));
                }
                // no message was produced: only revocation-pair digests (secret || index) were computed
                let big: Vec<usize> = sx::with(|ar| ar.hashes[nh..].iter().filter(|h| h.raw_len > 40).map(|h| h.raw_len).collect());
                if !big.is_empty() {
                    bad.push(format!("payment {} of {}: refused, but a transcript of {:?} bytes was hashed (a proof was being built)", k, a, big));
                }
                ready = back;
                ledger!("ready after refused payment", ready);
                continue;
            }
            (Err((_, e)), None) => {
                eng::finding("C04 in-range-payment-refused", &format!("{}: payment {} of {} refused with {:?} although the result ({}, {}) is in range", name, k, a, e, nc, nm), None, json!({"kind":"model"}));
                return;
            }
            (Ok(_), Some(exp)) => {
                eng::finding("C04 out-of-range-payment-started", &format!("{}: payment {} of {} started although it leaves the range (expected {:?})", name, k, a, exp), None, json!({"kind":"model"}));
                return;
            }
            (Ok((started, start)), None) => {
                // the honest merchant of the ideal functionality keeps the set of nonces it has seen (the documented usage
                // contract of allow_payment) and refuses a repeated one as a double spend
                let n_now = atom_scalar(&atoms::atoms_of(&start.nonce), "");
                for (j, n_old) in seen_nonces.iter().enumerate() {
                    let n_old: &Scalar = n_old;
                    if n_old.term() == n_now.term() || n_old.shadow() == n_now.shadow() {
                        bad.push(format!("payment {} of {}: the start message reveals the same nonce as payment {} - a merchant keeping its nonce set refuses this honest payment", k, a, j));
                    }
                }
                seen_nonces.push(n_now);
                ledger!("started (pre-payment balances)", started);
                sx::set_label("merch:allow_payment");
                let (unrev, closing) = match w.merchant.allow_payment(&mut rng, amount(*a), &start.nonce, start.pay_proof, &pctx) {
                    Some(x) => x,
                    None => {
                        eng::finding("C04 honest-pay-proof-rejected", &format!("{}: the merchant rejects the honest pay proof for amount {}", name, a), None, json!({"kind":"model"}));
                        return;
                    }
                };
                sx::set_label("cust:lock");
                let (locked, lockmsg) = match started.lock(closing, &w.cust) {
                    Ok(x) => x,
                    Err(_) => {
                        eng::finding("C04 honest-closing-signature-refused", &format!("{}: lock refuses the merchant's closing signature", name), None, json!({"kind":"model"}));
                        return;
                    }
                };
                lc = nc;
                lm = nm;
                ledger!("locked (post-payment balances)", locked);
                sx::set_label("merch:complete_payment");
                let pt = match unrev.complete_payment(&mut rng, &lockmsg.revocation_pair, &lockmsg.revocation_lock_blinding_factor) {
                    Ok(x) => x,
                    Err(_) => {
                        eng::finding("C04 honest-revocation-refused", &format!("{}: the merchant refuses the honest revocation", name), None, json!({"kind":"model"}));
                        return;
                    }
                };
                sx::set_label("cust:unlock");
                ready = match locked.unlock(pt, &w.cust) {
                    Ok(x) => x,
                    Err(_) => {
                        eng::finding("C04 honest-pay-token-refused", &format!("{}: unlock refuses the merchant's pay token", name), None, json!({"kind":"model"}));
                        return;
                    }
                };
                ledger!("ready after payment", ready);
            }
        }
    }
    // close at the end: the merchant's close check accepts, balances conserved
    sx::set_label("cust:close");
    let cm = ready.close(&mut rng);
    ledger!("closing message", cm);
    if lc + lm != c0 as i128 + m0 as i128 {
        bad.push("customer + merchant balance not conserved".into());
    }
    let (sig, cs) = cm.into_parts();
    sx::set_label("close:check");
    if !matches!(w.merchant.check_close_signature(sig, &cs), Verification::Verified) {
        eng::finding("C04 honest-close-rejected", &format!("{}: the merchant's close check rejects the honest closing message", name), None, json!({"kind":"model"}));
    }
    if !bad.is_empty() {
        eng::finding("C04 ledger-mismatch", &format!("{}: {}", name, bad.join("; ")), None, json!({"kind":"model"}));
    }
    // every verifier-side comparison on this run is forced for all random draws
    let ds = sx::snapshot_decisions();
    let mut n = 0;
    if check_all_forced {
        for l in VERIFIER_LABELS {
            n += all_forced(&name, "C04 honest-run-depends-on-randomness", 0, l);
        }
    } else {
        // cheaper: only the merchant's proof verifications and the final close check
        for l in ["merch:initialize", "merch:allow_payment", "close:check"] {
            n += all_forced(&name, "C04 honest-run-depends-on-randomness", 0, l);
        }
    }
    eng::sample(json!({"harness": name, "decisions": ds.len(), "verifier_decisions_checked_forced": n, "final_ledger": [lc.to_string(), lm.to_string()]}));
    eng::path_done();
}

//! C20 — a customer restored from storage at any step continues exactly as the original.
use crate::prelude::*;
use crate::world::*;
use serde::{de::DeserializeOwned, Serialize};
use zkabacus_crypto::{ClosingSignature, Context, PayToken, Verification};

pub fn run(tier: Tier, seed: u64) {
    eng::functions(&[
        "serde Serialize/Deserialize of customer::{Requested, Inactive, Ready, Started, Locked} and their parts (State, RevocationPair, Nonce, BlindingFactors, CloseStateSignature, PayToken, balances)",
        "zkabacus_crypto::customer::{Requested::complete, Inactive::{activate, close}, Ready::{start, close}, Started::{lock, close}, Locked::{unlock, close}}",
        "zkabacus_crypto::merchant::Config::check_close_signature",
    ]);
    eng::bound("store-and-restore at each of the five stages of establish + one payment (quick: amount 7; thorough: 7, -7, 0; both tiers: two boundary histories reaching balances 2^63-1 and 0), also right after a refused reply; identical randomness = the same draw variables");
    for a in if tier == Tier::Quick { vec![7i64, 0] } else { vec![7, -7, 0] } {
        history(seed, 100, 50, a);
    }
    // boundary balances: the payment drives the customer / merchant balance to exactly 2^63-1 and to 0
    let m = i64::MAX as u64;
    history(seed, m - 10, 10, -10);
    history(seed, 10, m - 10, 10);
}

/// store, restore through the real Deserialize; the decode must be forced Ok and re-encode identically
fn restore<S: Serialize + DeserializeOwned>(name: &str, state: &S) -> Option<S> {
    let l = atoms::layout(state);
    sx::set_label("restore");
    let n0 = sx::n_decisions();
    let back: Option<S> = decode(&l.bytes);
    all_forced(&format!("{}: restore decodes for every value", name), "C20 stored-state-rejected-on-restore", n0, "restore");
    match back {
        None => {
            eng::finding("C20 stored-state-rejected-on-restore", &format!("{}: the stored customer state does not decode", name), None, json!({"kind":"model"}));
            None
        }
        Some(b) => {
            same(&format!("{}: restored state re-encodes to the stored bytes", name), "C20 restore-not-lossless", state, &b);
            Some(b)
        }
    }
}

fn closes_same(name: &str, w: &World, a: ClosingMessage, b: ClosingMessage) {
    // same channel id, balances and revocation lock (the signature is re-randomised with the same draw variable)
    same(&format!("{}: closing messages of original and restored state are identical", name), "C20 restored-closes-differently", &a, &b);
    let (sig, cs) = b.into_parts();
    sx::set_label("close:check");
    let n0 = sx::n_decisions();
    if !matches!(w.merchant.check_close_signature(sig, &cs), Verification::Verified) {
        eng::finding("C20 restored-closes-differently", &format!("{}: the restored state's closing message fails the close check", name), None, json!({"kind":"model"}));
    }
    all_forced(&format!("{}: restored state's closing message passes the close check", name), "C20 restored-closes-differently", n0, "close:check");
}

fn copy<T: Serialize + DeserializeOwned>(v: &T) -> T {
    decode(&atoms::layout(v).bytes).expect("copy of a reply")
}

/// a symbolic reply is treated identically by both copies
fn same_verdict<S: Serialize, T, R: DeserializeOwned>(name: &str, a: S, b: S, step: impl Fn(S, R) -> Result<T, S>) -> Option<(S, S)> {
    let (s1, s2) = (sym_scalar("rep1"), sym_scalar("rep2"));
    let mut img = G1Affine(s1).to_compressed().to_vec();
    img.extend_from_slice(&G1Affine(s2).to_compressed());
    sx::set_label("badreply");
    let (ra, rb): (R, R) = (decode(&img)?, decode(&img)?);
    let n0 = sx::n_decisions();
    let oa = step(a, ra);
    let da = decisions_since(n0);
    let n1 = sx::n_decisions();
    let ob = step(b, rb);
    let db = decisions_since(n1);
    if da.len() != db.len() {
        eng::finding("C20 restored-judges-replies-differently", &format!("{}: original makes {} comparisons on a reply, restored {}", name, da.len(), db.len()), None, json!({"kind":"model"}));
    } else {
        for (x, y) in da.iter().zip(db.iter()) {
            eng::prove(&format!("{}: original and restored state compare a reply identically", name), "C20 restored-judges-replies-differently", &F::iff(x.cond.clone(), y.cond.clone()));
        }
    }
    match (oa, ob) {
        (Err(a), Err(b)) => {
            same(&format!("{}: both copies unchanged after a refused reply", name), "C20 restored-judges-replies-differently", &a, &b);
            Some((a, b))
        }
        (Ok(_), Ok(_)) => None,
        _ => {
            eng::finding("C20 restored-judges-replies-differently", &format!("{}: one copy accepts the reply, the other refuses", name), None, json!({"kind":"model"}));
            None
        }
    }
}

fn history(seed: u64, c0: u64, m0: u64, amt: i64) {
    let name = format!("C20 history cb={} mb={} amount={}", c0, m0, amt);
    for stage in ["requested", "inactive", "ready", "started", "locked"] {
        let name = format!("{} restore@{}", name, stage);
        sx::begin(vec![], DrawMode::NonDegenerate, seed);
        let mut rng = SeedRng::new(seed);
        let w = world(&mut rng);
        let (ctx, pctx) = (Context::new(b"e"), Context::new(b"p"));
        let cid = channel_id(&w, &mut rng, b"m", b"c");
        sx::set_label("flow");
        let (req, proof) = CRequested::new(&mut rng, &w.cust, cid, mb(m0), cb(c0), &ctx);
        let (closing, vbs) = w.merchant.initialize(&mut rng, &cid, cb(c0), mb(m0), proof, &ctx).expect("establish");
        if stage == "requested" {
            let Some(r2) = restore(&name, &req) else { continue };
            let Some((req, r2)) = same_verdict::<_, _, ClosingSignature>(&name, req, r2, |s, r| s.complete(r, &w.cust)) else { continue };
            // also immediately after the refused reply: store again
            let Some(r3) = restore(&format!("{} (after refused reply)", name), &r2) else { continue };
            sx::set_label("flow");
            let (a, b) = (req.complete(copy(&closing), &w.cust), r3.complete(copy(&closing), &w.cust));
            match (a, b) {
                (Ok(a), Ok(b)) => {
                    same(&format!("{}: complete() gives identical next states", name), "C20 restored-continues-differently", &a, &b);
                }
                _ => eng::finding("C20 restored-continues-differently", &format!("{}: complete() outcome differs or fails", name), None, json!({"kind":"model"})),
            }
            eng::path_done();
            continue;
        }
        let inactive = req.complete(closing, &w.cust).ok().expect("complete");
        let pt = w.merchant.activate(&mut rng, vbs);
        if stage == "inactive" {
            let Some(i2) = restore(&name, &inactive) else { continue };
            let Some((inactive, i2)) = same_verdict::<_, _, PayToken>(&name, inactive, i2, |s, r| s.activate(r, &w.cust)) else { continue };
            // close from both (consumes): need fresh copies
            let Some(i3) = restore(&format!("{} (copy for close)", name), &inactive) else { continue };
            let Some(i4) = restore(&format!("{} (copy for close 2)", name), &i2) else { continue };
            sx::set_label("flow");
            let (mut r1, mut r2) = (rng.clone(), rng.clone());
            closes_same(&name, &w, i3.close(&mut r1), i4.close(&mut r2));
            sx::set_label("flow");
            match (inactive.activate(copy(&pt), &w.cust), i2.activate(copy(&pt), &w.cust)) {
                (Ok(a), Ok(b)) => {
                    same(&format!("{}: activate() gives identical next states", name), "C20 restored-continues-differently", &a, &b);
                }
                _ => eng::finding("C20 restored-continues-differently", &format!("{}: activate() outcome differs or fails", name), None, json!({"kind":"model"})),
            }
            eng::path_done();
            continue;
        }
        let ready = inactive.activate(pt, &w.cust).ok().expect("activate");
        if stage == "ready" {
            let Some(r2) = restore(&name, &ready) else { continue };
            let Some(r3) = restore(&format!("{} (copy for close)", name), &ready) else { continue };
            let Some(r4) = restore(&format!("{} (copy for close 2)", name), &r2) else { continue };
            sx::set_label("flow");
            let (mut ra, mut rb) = (rng.clone(), rng.clone());
            closes_same(&name, &w, r3.close(&mut ra), r4.close(&mut rb));
            sx::set_label("flow");
            let (mut ra, mut rb) = (rng.clone(), rng.clone());
            match (ready.start(&mut ra, amount(amt), &pctx, &w.cust), r2.start(&mut rb, amount(amt), &pctx, &w.cust)) {
                (Ok((sa, ma)), Ok((sb, mb_))) => {
                    same(&format!("{}: start() emits the identical nonce", name), "C20 restored-emits-different-message", &ma.nonce, &mb_.nonce);
                    same(&format!("{}: start() emits the byte-identical pay proof", name), "C20 restored-emits-different-message", &ma.pay_proof, &mb_.pay_proof);
                    same(&format!("{}: start() gives identical next states", name), "C20 restored-continues-differently", &sa, &sb);
                    // and the merchant accepts the restored copy's message
                    sx::set_label("merch:allow_payment");
                    let n0 = sx::n_decisions();
                    if w.merchant.allow_payment(&mut rng, amount(amt), &mb_.nonce, mb_.pay_proof, &pctx).is_none() {
                        eng::finding("C20 restored-continues-differently", &format!("{}: the pay proof of the restored state is rejected", name), None, json!({"kind":"model"}));
                    }
                    let _ = n0;
                }
                _ => eng::finding("C20 restored-continues-differently", &format!("{}: start() outcome differs or fails", name), None, json!({"kind":"model"})),
            }
            eng::path_done();
            continue;
        }
        let (started, start) = ready.start(&mut rng, amount(amt), &pctx, &w.cust).ok().expect("start");
        let (unrev, closing2) = w.merchant.allow_payment(&mut rng, amount(amt), &start.nonce, start.pay_proof, &pctx).expect("allow");
        if stage == "started" {
            let Some(s2) = restore(&name, &started) else { continue };
            let Some((started, s2)) = same_verdict::<_, _, ClosingSignature>(&name, started, s2, |s, r| s.lock(r, &w.cust).map(|x| x.0)) else { continue };
            let Some(s3) = restore(&format!("{} (copy for close)", name), &started) else { continue };
            let Some(s4) = restore(&format!("{} (copy for close 2)", name), &s2) else { continue };
            sx::set_label("flow");
            let (mut ra, mut rb) = (rng.clone(), rng.clone());
            closes_same(&name, &w, s3.close(&mut ra), s4.close(&mut rb));
            sx::set_label("flow");
            match (started.lock(copy(&closing2), &w.cust), s2.lock(copy(&closing2), &w.cust)) {
                (Ok((la, ma)), Ok((lb, mb_))) => {
                    same(&format!("{}: lock() releases the identical revocation pair", name), "C20 restored-emits-different-message", &ma.revocation_pair, &mb_.revocation_pair);
                    same(&format!("{}: lock() releases the identical blinding factor", name), "C20 restored-emits-different-message", &ma.revocation_lock_blinding_factor, &mb_.revocation_lock_blinding_factor);
                    same(&format!("{}: lock() gives identical next states", name), "C20 restored-continues-differently", &la, &lb);
                    sx::set_label("merch:complete_payment");
                    if unrev.complete_payment(&mut rng, &mb_.revocation_pair, &mb_.revocation_lock_blinding_factor).is_err() {
                        eng::finding("C20 restored-continues-differently", &format!("{}: the lock message of the restored state is refused", name), None, json!({"kind":"model"}));
                    }
                }
                _ => eng::finding("C20 restored-continues-differently", &format!("{}: lock() outcome differs or fails", name), None, json!({"kind":"model"})),
            }
            eng::path_done();
            continue;
        }
        let (locked, lockmsg) = started.lock(closing2, &w.cust).ok().expect("lock");
        let pt2 = unrev.complete_payment(&mut rng, &lockmsg.revocation_pair, &lockmsg.revocation_lock_blinding_factor).ok().expect("complete");
        {
            let Some(l2) = restore(&name, &locked) else { continue };
            let Some((locked, l2)) = same_verdict::<_, _, PayToken>(&name, locked, l2, |s, r| s.unlock(r, &w.cust)) else { continue };
            let Some(l3) = restore(&format!("{} (copy for close)", name), &locked) else { continue };
            let Some(l4) = restore(&format!("{} (copy for close 2)", name), &l2) else { continue };
            sx::set_label("flow");
            let (mut ra, mut rb) = (rng.clone(), rng.clone());
            closes_same(&name, &w, l3.close(&mut ra), l4.close(&mut rb));
            sx::set_label("flow");
            match (locked.unlock(copy(&pt2), &w.cust), l2.unlock(copy(&pt2), &w.cust)) {
                (Ok(a), Ok(b)) => {
                    same(&format!("{}: unlock() gives identical next states", name), "C20 restored-continues-differently", &a, &b);
                }
                _ => eng::finding("C20 restored-continues-differently", &format!("{}: unlock() outcome differs or fails", name), None, json!({"kind":"model"})),
            }
            eng::sample(json!({"harness": name, "decisions": sx::n_decisions()}));
            eng::path_done();
        }
    }
}

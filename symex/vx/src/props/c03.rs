//! C03 — the customer can always close on an unrevoked valid state; bad merchant replies are inert.
use crate::prelude::*;
use crate::world::*;
use zkabacus_crypto::{ClosingSignature, Context, PayToken, Verification, CLOSE_SCALAR};

pub fn run(tier: Tier, seed: u64) {
    eng::functions(&[
        "zkabacus_crypto::customer::{Requested::complete, Inactive::{activate, close}, Ready::{start, close}, Started::{lock, close}, Locked::{unlock, close}, ClosingMessage::new}",
        "zkabacus_crypto::states::{CloseStateBlindedSignature::unblind, CloseStateSignature::{verify, randomize}, BlindedPayToken::unblind, PayToken::verify}",
        "zkabacus_crypto::merchant::Config::check_close_signature",
        "serde decode of ClosingSignature / PayToken replies (Signature::try_from)",
    ]);
    eng::bound("histories: establish + <= 1 payment, amounts {7,0} (quick) / amounts {7,-7,0} and 2 payments (thorough); at each of the four merchant-reply positions one fully symbolic reply (two arbitrary G1 elements), then the honest reply; close from every stage");
    eng::assumption("draws non-zero and the two revocation secrets of a history distinct");
    let amts: Vec<i64> = if tier == Tier::Quick { vec![7, 0] } else { vec![7, -7, 0] };
    for a in amts {
        history(seed, 100, 50, a);
    }
}

/// reference: does the reply (s1, s2), unblinded with bf, verify on message m under the merchant key?
fn ps_ref(key: &[Atom], s1: Scalar, s2: Scalar, bf: Scalar, m: &[Scalar; 5]) -> F {
    let mut inner = atom_scalar(key, "pk.x2");
    for i in 0..5 {
        inner = inner + atom_scalar(key, &format!("pk.y2s.{}", i)) * m[i];
    }
    F::and(vec![nz(s1), eq(s1 * inner, (s2 - s1 * bf) * atom_scalar(key, "pk.g2"))])
}

/// Inject a fully symbolic reply at one customer transition; both outcomes.
/// `step` consumes the state and the reply and returns Ok(next)/Err(same state).
fn bad_reply<S: serde::Serialize, T, R: serde::de::DeserializeOwned>(
    name: &str,
    key: &[Atom],
    state: S,
    bf_path: &str,
    msg: impl Fn(&[Atom]) -> [Scalar; 5],
    step: impl Fn(S, R) -> Result<T, S>,
) -> Option<S> {
    // returns the (unchanged) state from the refusing run so the history can continue
    let l = atoms::layout(&state);
    let at = atoms::atoms_of_layout(&l);
    let bf = atom_scalar(&at, bf_path);
    let m = msg(&at);
    let (s1, s2) = (sym_scalar(&format!("bad1_{}", name.len())), sym_scalar(&format!("bad2_{}", name.len())));
    let mut img = G1Affine(s1).to_compressed().to_vec();
    img.extend_from_slice(&G1Affine(s2).to_compressed());
    let r = ps_ref(key, s1, s2, bf, &m);
    // --- refusing outcome: a generic (random-valued) reply follows the shadow values and fails the pairing comparison
    sx::set_label("badreply");
    let n0 = sx::n_decisions();
    let reply: R = decode(&img)?;
    let out = step(state, reply);
    let made = decisions_since(n0);
    if made.is_empty() {
        eng::finding("C03 reply-not-checked", &format!("{}: a merchant reply is taken over without any comparison", name), None, json!({"kind":"model"}));
    }
    match out {
        Ok(_) => {
            eng::finding("C03 bad-reply-accepted", &format!("{}: a reply whose unblinded form fails the pairing check is accepted", name), None, json!({"kind":"model"}));
            None
        }
        Err(back) => {
            eng::prove(&format!("{}: refused => the unblinded reply is NOT a valid signature on the expected message", name), "C03 valid-reply-refused", &r.clone().not());
            let after = atoms::layout(&back).bytes;
            if after != l.bytes {
                eng::finding("C03 state-changed-by-refused-reply", &format!("{}: the customer state after a refused reply differs from the state before", name), None, json!({"kind":"model"}));
            }
            Some(back)
        }
    }
}

/// accepting outcome of a symbolic reply: only if it IS a valid signature on the expected message
fn good_symbolic_reply<S: serde::Serialize + serde::de::DeserializeOwned, T, R: serde::de::DeserializeOwned>(name: &str, key: &[Atom], state: S, bf_path: &str, msg: impl Fn(&[Atom]) -> [Scalar; 5], step: impl Fn(S, R) -> Result<T, S>) {
    type_alias_hack::<S>();
    let l = atoms::layout(&state);
    let at = atoms::atoms_of_layout(&l);
    let bf = atom_scalar(&at, bf_path);
    let m = msg(&at);
    let (s1, s2) = (sym_scalar("acc1"), sym_scalar("acc2"));
    let mut img = G1Affine(s1).to_compressed().to_vec();
    img.extend_from_slice(&G1Affine(s2).to_compressed());
    let r = ps_ref(key, s1, s2, bf, &m);
    // learn the comparison sequence of a (refused) generic reply on a scratch copy of the state, then force the last
    // comparison (the pairing equation) to hold
    let scratch: S = decode(&l.bytes).expect("scratch copy of the customer state");
    sx::set_label("badreply-probe");
    let n0 = sx::n_decisions();
    let probe: Option<R> = decode(&img);
    let mut seq: Vec<bool> = vec![];
    if let Some(probe) = probe {
        let _ = step(scratch, probe);
        seq = decisions_since(n0).iter().map(|d| d.outcome).collect();
    }
    if let Some(last) = seq.last_mut() {
        *last = !*last;
    }
    sx::set_label("badreply");
    sx::force_seq(seq);
    let reply: Option<R> = decode(&img);
    if let Some(reply) = reply {
        if step(state, reply).is_ok() {
            eng::prove(&format!("{}: accepted => the unblinded reply IS a valid signature on exactly the expected message", name), "C03 bad-reply-accepted", &r);
        } else {
            eng::inconclusive(&format!("{}: forced accepting path did not accept", name));
        }
    }
    sx::force_seq(vec![]);
}

fn type_alias_hack<S>() {}

/// The merchant's own code run with a zero signing draw produces the all-identity signature as an in-memory reply
/// (it never goes through the decode-time check).  The customer must refuse it, for every value of everything else.
fn identity_reply<S: serde::Serialize, T, R>(name: &str, state: S, reply: R, step: impl Fn(S, R) -> Result<T, S>) -> Option<S> {
    let before = atoms::layout(&state).bytes;
    sx::set_label("idreply");
    let n0 = sx::n_decisions();
    match step(state, reply) {
        Ok(_) => {
            eng::finding("C03 identity-signature-accepted", &format!("{}: the all-identity signature (merchant signing randomness 0) is accepted", name), None, json!({"kind":"model"}));
            None
        }
        Err(back) => {
            all_forced(&format!("{}: identity reply refused for every value", name), "C03 identity-signature-accepted", n0, "idreply");
            if atoms::layout(&back).bytes != before {
                eng::finding("C03 state-changed-by-refused-reply", &format!("{}: state changed by a refused identity reply", name), None, json!({"kind":"model"}));
            }
            Some(back)
        }
    }
}
fn with_zero_draw<Rv>(f: impl FnOnce(&mut OnDemandZeroRng) -> Rv) -> Rv {
    let mut z = OnDemandZeroRng::new(99);
    z.zero_next = true;
    sx::set_mode(DrawMode::Free);
    let n = sx::with(|a| a.draws.len());
    let r = f(&mut z);
    sx::set_mode(DrawMode::NonDegenerate);
    // the signing draw is exactly zero on this run
    let u = sx::with(|a| a.vars[a.draws[n] as usize].node);
    sx::assume(is_z(Scalar::from_term(u)), "merchant signing draw is zero");
    r
}

fn state_msg(at: &[Atom], pfx: &str, cbal: u64, mbal: u64, close: bool) -> [Scalar; 5] {
    [
        atom_scalar(at, &format!("{}channel_id", pfx)),
        if close { CLOSE_SCALAR } else { atom_scalar(at, &format!("{}nonce", pfx)) },
        atom_scalar(at, &format!("{}revocation_pair.lock", pfx)),
        Scalar::from(cbal),
        Scalar::from(mbal),
    ]
}

fn check_close(name: &str, w: &World, cm: ClosingMessage, lc: u64, lm: u64, disclosed: &[Scalar]) {
    if cm.customer_balance().into_inner() != lc || cm.merchant_balance().into_inner() != lm {
        eng::finding("C03 close-balances-wrong", &format!("{}: closing message carries ({}, {}), ledger says ({}, {})", name, cm.customer_balance().into_inner(), cm.merchant_balance().into_inner(), lc, lm), None, json!({"kind":"model"}));
    }
    let lock = atom_scalar(&atoms::atoms_of(cm.revocation_lock()), "");
    for (i, d) in disclosed.iter().enumerate() {
        eng::prove(&format!("{}: closing lock differs from the lock disclosed in lock message {}", name, i), "C03 close-on-revoked-state", &ne(lock, *d));
    }
    let (sig, cs) = cm.into_parts();
    sx::set_label("close:check");
    let n0 = sx::n_decisions();
    if !matches!(w.merchant.check_close_signature(sig, &cs), Verification::Verified) {
        eng::finding("C03 close-rejected", &format!("{}: the merchant's close check rejects the customer's closing message", name), None, json!({"kind":"model"}));
    }
    all_forced(&format!("{}: close check accepts", name), "C03 close-rejected", n0, "close:check");
}

/// one history; at every reply position: symbolic refusing reply, symbolic accepting reply (separate run), honest reply;
/// at every stage: close (separate run, since close consumes the state)
fn history(seed: u64, c0: u64, m0: u64, amt: i64) {
    let (c1, m1) = ((c0 as i128 - amt as i128) as u64, (m0 as i128 + amt as i128) as u64);
    // stop_at: which stage to close from; inject: which reply position gets the symbolic replies
    for stop in ["inactive", "ready", "started", "locked", "ready2"] {
        for accept_variant in [false, true] {
            let name = format!("C03 history cb={} mb={} amount={} stop={}{}", c0, m0, amt, stop, if accept_variant { " [symbolic reply accepted]" } else { "" });
            sx::begin(vec![], DrawMode::NonDegenerate, seed);
            let mut rng = SeedRng::new(seed);
            let w = world(&mut rng);
            let key = atoms::atoms_of(w.merchant.signing_keypair());
            let ctx = Context::new(b"e");
            let pctx = Context::new(b"p");
            let cid = channel_id(&w, &mut rng, b"m", b"c");
            sx::set_label("cust:requested");
            let (req, proof) = CRequested::new(&mut rng, &w.cust, cid, mb(m0), cb(c0), &ctx);
            let proof_bytes = atoms::layout(&proof).bytes;
            sx::set_label("merch:initialize");
            let (closing, vbs) = w.merchant.initialize(&mut rng, &cid, cb(c0), mb(m0), proof, &ctx).expect("establish");
            // the same merchant call with signing randomness 0: all-identity replies
            sx::set_label("merch:initialize-zero");
            let (closing_id, vbs2) = with_zero_draw(|z| w.merchant.initialize(z, &cid, cb(c0), mb(m0), decode::<Proof>(&proof_bytes).unwrap(), &ctx).expect("establish (zero draw)"));
            let pt_id = with_zero_draw(|z| w.merchant.activate(z, vbs2));
            // ---- reply position 1: closing signature for the initial close state
            if stop == "inactive" && accept_variant {
                good_symbolic_reply::<_, _, ClosingSignature>(&name, &key, req, "close_state_blinding_factor", |at| state_msg(at, "state.", c0, m0, true), |s, r| s.complete(r, &w.cust));
                eng::path_done();
                continue;
            }
            let req = match bad_reply::<_, _, ClosingSignature>(&format!("{} @complete", name), &key, req, "close_state_blinding_factor", |at| state_msg(at, "state.", c0, m0, true), |s, r| s.complete(r, &w.cust)) {
                Some(x) => x,
                None => return,
            };
            let req = match identity_reply(&format!("{} @complete", name), req, closing_id, |s, r| s.complete(r, &w.cust)) {
                Some(x) => x,
                None => return,
            };
            sx::set_label("cust:complete");
            let inactive = req.complete(closing, &w.cust).ok().expect("honest closing signature");
            if stop == "inactive" {
                sx::set_label("cust:close");
                let cm = inactive.close(&mut rng);
                check_close(&name, &w, cm, c0, m0, &[]);
                eng::path_done();
                continue;
            }
            sx::set_label("merch:activate");
            let pt = w.merchant.activate(&mut rng, vbs);
            // ---- reply position 2: pay token for the initial state
            if stop == "ready" && accept_variant {
                good_symbolic_reply::<_, _, PayToken>(&name, &key, inactive, "blinding_factor", |at| state_msg(at, "state.", c0, m0, false), |s, r| s.activate(r, &w.cust));
                eng::path_done();
                continue;
            }
            let inactive = match bad_reply::<_, _, PayToken>(&format!("{} @activate", name), &key, inactive, "blinding_factor", |at| state_msg(at, "state.", c0, m0, false), |s, r| s.activate(r, &w.cust)) {
                Some(x) => x,
                None => return,
            };
            let inactive = match identity_reply(&format!("{} @activate", name), inactive, pt_id, |s, r| s.activate(r, &w.cust)) {
                Some(x) => x,
                None => return,
            };
            sx::set_label("cust:activate");
            let ready = inactive.activate(pt, &w.cust).ok().expect("honest pay token");
            if stop == "ready" {
                sx::set_label("cust:close");
                let cm = ready.close(&mut rng);
                check_close(&name, &w, cm, c0, m0, &[]);
                eng::path_done();
                continue;
            }
            sx::set_label("cust:start");
            let (started, start) = ready.start(&mut rng, amount(amt), &pctx, &w.cust).ok().expect("start");
            let pp_bytes = atoms::layout(&start.pay_proof).bytes;
            sx::set_label("merch:allow_payment");
            let (unrev, closing2) = w.merchant.allow_payment(&mut rng, amount(amt), &start.nonce, start.pay_proof, &pctx).expect("allow");
            sx::set_label("merch:allow_payment-zero");
            let (unrev_id, closing2_id) = with_zero_draw(|z| w.merchant.allow_payment(z, amount(amt), &start.nonce, decode::<PProof>(&pp_bytes).unwrap(), &pctx).expect("allow (zero draw)"));
            // ---- reply position 3: closing signature for the NEW close state
            if stop == "started" && accept_variant {
                good_symbolic_reply::<_, _, ClosingSignature>(&name, &key, started, "blinding_factors.for_close_state", |at| state_msg(at, "new_state.", c1, m1, true), |s, r| s.lock(r, &w.cust).map(|x| x.0));
                eng::path_done();
                continue;
            }
            let started = match bad_reply::<_, _, ClosingSignature>(&format!("{} @lock", name), &key, started, "blinding_factors.for_close_state", |at| state_msg(at, "new_state.", c1, m1, true), |s, r| s.lock(r, &w.cust).map(|x| x.0)) {
                Some(x) => x,
                None => return,
            };
            if stop == "started" {
                // payment only started: the customer closes on the OLD state (pre-payment balances)
                sx::set_label("cust:close");
                let cm = started.close(&mut rng);
                check_close(&name, &w, cm, c0, m0, &[]);
                eng::path_done();
                continue;
            }
            let started = match identity_reply(&format!("{} @lock", name), started, closing2_id, |s, r| s.lock(r, &w.cust).map(|x| x.0)) {
                Some(x) => x,
                None => return,
            };
            sx::set_label("cust:lock");
            let (locked, lockmsg) = started.lock(closing2, &w.cust).ok().expect("honest closing signature");
            let old_lock = atom_scalar(&atoms::atoms_of(&lockmsg.revocation_pair), "lock");
            // the two revocation secrets of this history are distinct draws
            let lat = atoms::atoms_of(&locked);
            let (sec_old, sec_new) = (atom_scalar(&atoms::atoms_of(&lockmsg.revocation_pair), "secret.secret"), atom_scalar(&lat, "state.revocation_pair.secret.secret"));
            if sec_old.term() == sec_new.term() || sec_old.shadow() == sec_new.shadow() {
                // not two draws that happen to collide: the successor state carries the very pair that was just revealed
                eng::finding(
                    "C03 revealed-revocation-pair-kept",
                    &format!("{}: the lock message reveals the revocation pair the customer's new state still holds (amount {})", name, amt),
                    None,
                    json!({"kind": "none"}),
                );
                eng::path_done();
                continue;
            }
            sx::assume(ne(sec_old, sec_new), "distinct revocation secrets");
            sx::set_label("merch:complete_payment");
            let pt2 = unrev.complete_payment(&mut rng, &lockmsg.revocation_pair, &lockmsg.revocation_lock_blinding_factor).ok().expect("complete");
            let pt2_id = with_zero_draw(|z| unrev_id.complete_payment(z, &lockmsg.revocation_pair, &lockmsg.revocation_lock_blinding_factor).ok().expect("complete (zero draw)"));
            let locked = match identity_reply(&format!("{} @unlock", name), locked, pt2_id, |s, r| s.unlock(r, &w.cust)) {
                Some(x) => x,
                None => return,
            };
            // ---- reply position 4: pay token for the new state
            if stop == "locked" && accept_variant {
                good_symbolic_reply::<_, _, PayToken>(&name, &key, locked, "blinding_factor", |at| state_msg(at, "state.", c1, m1, false), |s, r| s.unlock(r, &w.cust));
                eng::path_done();
                continue;
            }
            let locked = match bad_reply::<_, _, PayToken>(&format!("{} @unlock", name), &key, locked, "blinding_factor", |at| state_msg(at, "state.", c1, m1, false), |s, r| s.unlock(r, &w.cust)) {
                Some(x) => x,
                None => return,
            };
            if stop == "locked" {
                sx::set_label("cust:close");
                let cm = locked.close(&mut rng);
                check_close(&name, &w, cm, c1, m1, &[old_lock]);
                eng::path_done();
                continue;
            }
            if accept_variant {
                eng::path_done();
                continue;
            }
            sx::set_label("cust:unlock");
            let ready2 = locked.unlock(pt2, &w.cust).ok().expect("honest pay token");
            sx::set_label("cust:close");
            let cm = ready2.close(&mut rng);
            check_close(&name, &w, cm, c1, m1, &[old_lock]);
            eng::sample(json!({"harness": name, "decisions": sx::n_decisions()}));
            eng::path_done();
        }
    }
}

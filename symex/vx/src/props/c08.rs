//! C08 — blind signing yields a signature on exactly the message proven in the request.
use crate::prelude::*;

pub fn run(tier: Tier, seed: u64) {
    eng::functions(&[
        "zkchannels_crypto::proofs::SignatureRequestProofBuilder::{generate_proof_commitments, generate_proof_response, message_blinding_factor}",
        "zkchannels_crypto::proofs::SignatureRequestProof::verify_knowledge_of_opening",
        "zkchannels_crypto::pointcheval_sanders::{VerifiedBlindedMessage::blind_sign, BlindedSignature::{new, unblind}, Signature::verify, BlindedMessage::new}",
        "zkchannels_crypto::Message::blind",
    ]);
    eng::bound("N in {1,2,3,5} (+8,13 thorough); request proofs fully symbolic; all verifier paths");
    crate::for_each_n!(tier, unit, seed);
}

/// the same in-memory request object, verified once, must still be judged afresh under another challenge / key
fn reverify<const N: usize>(seed: u64) {
    sx::begin(vec![], DrawMode::NonDegenerate, seed);
    let mut rng = SeedRng::new(seed);
    let kp = KeyPair::<N>::new(&mut rng);
    let kp2 = KeyPair::<N>::new(&mut rng);
    let b = SignatureRequestProofBuilder::<N>::generate_proof_commitments(&mut rng, Message::new(sym_scalars("m")), &[None; N], kp.public_key());
    let c = ChallengeBuilder::new().with(&b).finish();
    let proof = b.generate_proof_response(c);
    let c2 = sym_challenge("other");
    let first = proof.verify_knowledge_of_opening(kp.public_key(), c).is_some();
    let again_other_challenge = proof.verify_knowledge_of_opening(kp.public_key(), c2).is_some();
    let again_other_key = proof.clone().verify_knowledge_of_opening(kp2.public_key(), c).is_some();
    let again_same = proof.verify_knowledge_of_opening(kp.public_key(), c).is_some();
    if !first || !again_same || again_other_challenge || again_other_key {
        eng::finding("C08 verdict-depends-on-history", &format!("N={}: request verified under (key, c): {}; then under another challenge: {}; under another key: {}; again under (key, c): {}", N, first, again_other_challenge, again_other_key, again_same), None, json!({"kind":"model"}));
    }
    if !matches!(eng::witness(&format!("C08 N={}: re-verification of one request object under another challenge / key is refused (witness)", N), &eng::hyps(), &F::True), Tri::Yes) {
        eng::inconclusive("C08 reverify: no confirmed witness");
    }
    eng::path_done();
}

fn unit<const N: usize>(seed: u64) {
    key_elements_independent::<N>(seed);
    reverify::<N>(seed);
    honest::<N>(seed);
    only_from_verifying_proof::<N>(seed);
    tampered::<N>(seed);
}

/// honest request => Some, and blind_sign + unblind verifies on m for all m, bf, draws
/// "verifies on no tuple differing in any coordinate" needs the Y_i of a generated key to be independent elements: with
/// y_i = y_j a signature covers the sum of the two entries.  Checked on the key generator the harnesses below use.
fn key_elements_independent<const N: usize>(seed: u64) {
    sx::begin(vec![], DrawMode::NonDegenerate, seed);
    let mut rng = SeedRng::new(seed);
    let kp = KeyPair::<N>::new(&mut rng);
    let at = atoms::atoms_of(&kp);
    let ys: Vec<(String, Scalar)> = at.iter().filter(|a| a.path.starts_with("pk.y2s.") || a.path == "pk.x2").map(|a| (a.path.clone(), Scalar::from_term(a.term()))).collect();
    independent_generators(&format!("C08 KeyPair<{}>::new", N), "C08 key-elements-not-independent", &eng::axioms(), &ys);
    eng::path_done();
}

fn honest<const N: usize>(seed: u64) {
    let name = format!("C08 honest request N={}: blind_sign(..).unblind(bf).verify(pk, m)", N);
    let _ = forced_result(&name, "C08 honest-request-not-signed-correctly", DrawMode::NonDegenerate, seed, "verify", 8, true, || {
        let mut rng = SeedRng::new(seed);
        let kp = KeyPair::<N>::new(&mut rng);
        let m: [Scalar; N] = sym_scalars("m");
        let b = SignatureRequestProofBuilder::<N>::generate_proof_commitments(&mut rng, Message::new(m), &[None; N], kp.public_key());
        let bf = b.message_blinding_factor();
        let c = ChallengeBuilder::new().with(&b).finish();
        let proof = b.generate_proof_response(c);
        sx::set_label("verify");
        match proof.verify_knowledge_of_opening(kp.public_key(), c) {
            None => false,
            Some(vbm) => vbm.blind_sign(&kp, &mut rng).unblind(bf).verify(kp.public_key(), &Message::new(m)),
        }
    });
    // ... and on no tuple differing in one coordinate
    for j in 0..N {
        sx::begin(vec![], DrawMode::NonDegenerate, seed);
        let mut rng = SeedRng::new(seed);
        let kp = KeyPair::<N>::new(&mut rng);
        let pat = atoms::atoms_of(kp.public_key());
        let m: [Scalar; N] = sym_scalars("m");
        let b = SignatureRequestProofBuilder::<N>::generate_proof_commitments(&mut rng, Message::new(m), &[None; N], kp.public_key());
        let bf = b.message_blinding_factor();
        let c = ChallengeBuilder::new().with(&b).finish();
        let proof = b.generate_proof_response(c);
        let vbm = proof.verify_knowledge_of_opening(kp.public_key(), c).expect("honest");
        let sig = vbm.blind_sign(&kp, &mut rng).unblind(bf);
        let mut m2 = m;
        m2[j] = sym_scalar("alt");
        let (ra, rb) = same_path(|| sig.verify(kp.public_key(), &Message::new(m)), || sig.verify(kp.public_key(), &Message::new(m2)));
        assert!(ra && rb);
        let s1 = Scalar::from_term(atoms::atoms_of(&sig)[0].term());
        let yj = atom_scalar(&pat, &format!("y2s.{}", j));
        let mut h = eng::hyps();
        h.push(F::iff(is_z(s1 * yj), F::or(vec![is_z(s1), is_z(yj)])));
        unique_under(&format!("C08 N={}: unblinded signature verifies on a tuple differing in coordinate {} => equal", N, j), "C08 signature-on-other-message", &h, Some(s1 * yj), m[j], m2[j]);
        eng::path_done();
    }
}

/// Some(_) <=> Schnorr equation; the value inside is the proof's own commitment
fn only_from_verifying_proof<const N: usize>(seed: u64) {
    let name = format!("C08 SignatureRequestProof<{}>", N);
    let st = explore(DrawMode::NonDegenerate, seed, 8, 64, &["verify"], |p| {
        let mut rng = SeedRng::new(seed);
        let kp = KeyPair::<N>::new(&mut rng);
        let key = atoms::atoms_of(&kp);
        let c = sym_challenge("c");
        let b = SignatureRequestProofBuilder::<N>::generate_proof_commitments(&mut rng, Message::new(sym_scalars("m")), &[None; N], kp.public_key());
        let honest = b.generate_proof_response(c);
        let (proof, at, _) = atoms::symbolize(&honest, "P");
        sx::set_label("verify");
        let res = proof.verify_knowledge_of_opening(kp.public_key(), c);
        let mut lhs = atom_scalar(&key, "pk.g1") * atom_scalar(&at, "commitment_proof.blinding_factor_response_scalar");
        for i in 0..N {
            lhs = lhs + atom_scalar(&key, &format!("pk.y1s.{}", i)) * atom_scalar(&at, &format!("commitment_proof.message_response_scalars.{}", i));
        }
        let com = atom_scalar(&at, "commitment_proof.commitment");
        let r = eq(lhs, atom_scalar(&at, "commitment_proof.scalar_commitment") + c.to_scalar() * com);
        if !path_feasible(&name, p) {
            return;
        }
        eng::prove(&format!("{}: Some={} <=> Schnorr equation under the signer's key and the given challenge", name, res.is_some()), "C08 blind-signable-without-verifying-proof", &F::iff(tf(res.is_some()), r));
        if let Some(vbm) = res {
            // what gets signed is the very commitment of the proof: sigma2 = (X1 + C)^u, sigma1 = g1^u
            sx::set_label("sign");
            let nd = sx::with(|a| a.draws.len());
            let bs = vbm.blind_sign(&kp, &mut rng);
            let u = Scalar::from_term(sx::with(|a| a.vars[a.draws[nd] as usize].node));
            let sat = atoms::atoms_of(&bs);
            eng::prove(&format!("{}: blind signature sigma1 = g1^u", name), "C08 blind-signature-shape", &eq(Scalar::from_term(sat[0].term()), atom_scalar(&key, "pk.g1") * u));
            eng::prove(&format!("{}: blind signature sigma2 = (X1 * C_proof)^u", name), "C08 blind-signs-other-value", &eq(Scalar::from_term(sat[1].term()), (atom_scalar(&key, "sk.x1") + com) * u));
        }
    });
    if st.paths != 2 {
        eng::note(&format!("{}: {} paths", name, st.paths));
    }
    for (p, m) in st.panics {
        eng::inconclusive(&format!("{} panicked on path {:?}: {}", name, p, m));
    }
}

/// any single atom of the request, or the challenge, changed: both cannot verify (c != 0, generators != 1)
fn tampered<const N: usize>(seed: u64) {
    let n_atoms = N + 3;
    for k in 0..=n_atoms {
        sx::begin(vec![], DrawMode::NonDegenerate, seed);
        let mut rng = SeedRng::new(seed);
        let kp = KeyPair::<N>::new(&mut rng);
        let key = atoms::atoms_of(&kp);
        let c = sym_challenge("c");
        let b = SignatureRequestProofBuilder::<N>::generate_proof_commitments(&mut rng, Message::new(sym_scalars("m")), &[None; N], kp.public_key());
        let honest = b.generate_proof_response(c);
        let l = atoms::layout(&honest);
        let (bytes, at) = atoms::symbolize_layout(&l, "P");
        if k == 0 {
            // a request arriving on the wire with one atom replaced by a non-canonical scalar or a curve point outside
            // the prime-order group (e.g. the commitment shifted by a small-order point) must yield no value at all
            let mut accepted = vec![];
            for a in &at {
                let bad = match a.kind {
                    sx::K_SCALAR => sx::K_BAD_SCALAR,
                    sx::K_G1 => sx::K_BAD_G1,
                    sx::K_G2 => sx::K_BAD_G2,
                    _ => continue,
                };
                let mut b3 = bytes.clone();
                sx::write_token(&mut b3[a.off..a.off + a.width], bad, a.id);
                sx::set_label("decode-bad");
                if let Some(p) = decode::<SignatureRequestProof<N>>(&b3) {
                    sx::set_force(Some(true));
                    let r = p.verify_knowledge_of_opening(kp.public_key(), c).is_some();
                    sx::set_force(None);
                    if r {
                        accepted.push(a.path.clone());
                    }
                }
            }
            if !accepted.is_empty() {
                eng::finding(
                    &format!("C08 invalid-encoding-yields-blind-signable N={}", N),
                    &format!("N={}: a request whose {:?} is an out-of-group / non-canonical encoding decodes and can yield a blind-signable value", N, accepted),
                    None,
                    json!({"kind":"model"}),
                );
            }
            sx::set_label("");
        }
        if k < at.len() {
            let a = at[k].clone();
            let mut b2 = bytes.clone();
            let alt = perturb(&mut b2, &a, "alt");
            let (pa, pb): (SignatureRequestProof<N>, SignatureRequestProof<N>) = (decode(&bytes).unwrap(), decode(&b2).unwrap());
            let (ra, rb) = same_path(|| pa.verify_knowledge_of_opening(kp.public_key(), c).is_some(), || pb.verify_knowledge_of_opening(kp.public_key(), c).is_some());
            assert!(ra && rb);
            let nondeg = match a.path.as_str() {
                "commitment_proof.commitment" => Some(c.to_scalar()),
                "commitment_proof.scalar_commitment" => None,
                "commitment_proof.blinding_factor_response_scalar" => Some(atom_scalar(&key, "pk.g1")),
                p => Some(atom_scalar(&key, &format!("pk.y1s.{}", p.rsplit('.').next().unwrap()))),
            };
            unique_under(&format!("C08 N={}: request with {} changed still yields a blind-signable value => unchanged", N, a.path), "C08 tampered-request-accepted", &eng::hyps(), nondeg, Scalar::from_term(a.term()), alt);
        } else {
            let c2 = sym_challenge("c2");
            let p: SignatureRequestProof<N> = decode(&bytes).unwrap();
            let (ra, rb) = same_path(|| p.verify_knowledge_of_opening(kp.public_key(), c).is_some(), || p.verify_knowledge_of_opening(kp.public_key(), c2).is_some());
            assert!(ra && rb);
            unique_under(&format!("C08 N={}: request verifying under two challenges => equal (C != 1)", N), "C08 wrong-challenge-accepted", &eng::hyps(), Some(atom_scalar(&at, "commitment_proof.commitment")), c.to_scalar(), c2.to_scalar());
        }
        eng::path_done();
    }
}

//! C15 — wire round-trips are lossless and decoded values satisfy every type invariant (E1 part).
//! C16 (E1 part) — the same images with every length prefix mutated / truncated / extended never make decoding panic.
use crate::prelude::*;
use crate::world::*;
use serde::{de::DeserializeOwned, Serialize};
use zkabacus_crypto::{
    revlock::{RevocationLock, RevocationLockBlindingFactor, RevocationLockCommitment, RevocationPair, RevocationSecret},
    ChannelId, CloseState, CloseStateSignature, ClosingSignature, Context, CustomerBalance, CustomerRandomness, MerchantBalance, MerchantRandomness, PayToken, PaymentAmount, CLOSE_SCALAR,
};

/// every type with a Deserialize impl in the two crates, and how this harness reaches it
pub const TYPES: &[(&str, &str)] = &[
    ("BlindingFactor", "direct"),
    ("Commitment", "direct (G1, G2)"),
    ("PedersenParameters", "direct (G1/1 = revocation parameters, G2/3)"),
    ("UncheckedPedersenParameters", "via PedersenParameters (try_from)"),
    ("SecretKey", "via KeyPair"),
    ("UncheckedSecretKey", "via KeyPair"),
    ("PublicKey", "direct (N=5, N=1 inside RangeConstraintParameters)"),
    ("UncheckedPublicKey", "via PublicKey"),
    ("KeyPair", "direct (N=5)"),
    ("Signature", "direct"),
    ("UncheckedSignature", "via Signature"),
    ("BlindedMessage", "direct"),
    ("BlindedSignature", "direct"),
    ("CommitmentProof", "direct (G1/1) and inside the other proofs"),
    ("SignatureProof", "direct (N=5) and N=1 inside RangeConstraint"),
    ("SignatureRequestProof", "direct (N=5)"),
    ("RangeConstraintParameters", "direct"),
    ("RangeConstraint", "direct"),
    ("DeWrapper", "via every [G; N] / Box<[G; N]> field"),
    ("Error", "direct (both variants)"),
    ("PaymentAmount", "direct"),
    ("Balance", "via CustomerBalance / MerchantBalance"),
    ("CustomerBalance", "direct"),
    ("MerchantBalance", "direct"),
    ("Nonce", "direct"),
    ("UncheckedNonce", "via Nonce"),
    ("RevocationPair", "direct"),
    ("UncheckedRevocationPair", "via RevocationPair"),
    ("UncheckedRevocationSecret", "via RevocationPair"),
    ("RevocationLock", "direct"),
    ("RevocationSecret", "direct"),
    ("RevocationLockCommitment", "direct (decoded from an element image)"),
    ("RevocationLockBlindingFactor", "direct"),
    ("CustomerRandomness", "direct"),
    ("MerchantRandomness", "direct"),
    ("ChannelId", "direct"),
    ("State", "via Requested / Inactive / Ready / Started / Locked"),
    ("CloseState", "direct"),
    ("CloseStateSignature", "direct"),
    ("CloseStateBlindedSignature", "direct (ClosingSignature)"),
    ("CloseStateBlindingFactor", "via Requested / Started"),
    ("PayToken", "via Ready (unblinded) "),
    ("BlindedPayToken", "direct (zkabacus_crypto::PayToken)"),
    ("PayTokenBlindingFactor", "via Requested / Inactive / Locked"),
    ("PayTokenCommitment", "not reachable: private to zkabacus_crypto::proofs, never constructed or exported (dead code); a newtype over Commitment<G2>, which is covered"),
    ("BlindingFactors", "via Started"),
    ("EstablishProof", "direct"),
    ("PayProof", "direct"),
    ("Config", "direct (customer::Config)"),
    ("Requested", "direct"),
    ("Inactive", "direct"),
    ("Ready", "direct"),
    ("Started", "direct"),
    ("Locked", "direct"),
    ("ClosingMessage", "direct"),
];

pub fn run(tier: Tier, seed: u64) {
    eng::functions(&[
        "serde Serialize / Deserialize (derive + try_from validators) of every serialisable type of both crates",
        "zkchannels_crypto::serde::{SerializeElement for Scalar, G1/G2 affine+projective, [G; N], Box<[G; N]>, big_boxed_array}",
        "bincode 1.3 (runs as is)",
    ]);
    eng::bound("one honestly produced value per type (N=5 / N=1 instantiations used by zkAbacus, G1/1 and G2/3 parameters); every atom made symbolic; every decode-time comparison flipped once; every atom replaced once by an invalid-encoding token");
    eng::assumption("the element decoders of bls12_381 are total and reject non-canonical / off-curve / out-of-subgroup encodings (external; modelled by invalid-encoding tokens that only the *_unchecked decoders accept)");
    eng::ctx(|c| c.notes.push(format!("types_covered={}", TYPES.iter().map(|t| t.0).collect::<Vec<_>>().join(","))));
    drive(seed, tier, Mode::Roundtrip);
}

#[derive(Clone, Copy, PartialEq)]
pub enum Mode {
    Roundtrip,
    Mutate,
}

thread_local! { static SEED: std::cell::Cell<u64> = std::cell::Cell::new(1); }

/// atom-path based invariants of decoded values
fn invariants(tyname: &str, at: &[Atom], hashes_since: usize) -> Vec<(String, F)> {
    let mut v = vec![];
    for a in at {
        let p = a.path.as_str();
        let s = Scalar::from_term(a.term());
        let last = p.rsplit('.').next().unwrap_or("");
        let in_seq = |name: &str| p.contains(&format!("{}.", name));
        if last == "sigma1" {
            v.push((format!("{}: {} is not the identity", tyname, p), nz(s)));
        }
        let key_elem = ["g1", "g2", "x2"].contains(&last) && (p.contains("pk") || p.contains("public_key") || tyname.starts_with("PublicKey"));
        if key_elem || in_seq("y1s") || in_seq("y2s") {
            v.push((format!("{}: key element {} is not the identity", tyname, p), nz(s)));
        }
        if (p.ends_with("sk.x") || in_seq("sk.ys") || p.ends_with("sk.x1")) && a.kind != sx::K_DIGEST {
            v.push((format!("{}: secret key component {} is non-zero / non-identity", tyname, p), nz(s)));
        }
        if (last == "h" || in_seq("gs")) && (tyname.starts_with("PedersenParameters") || p.contains("revocation_commitment_parameters")) {
            v.push((format!("{}: generator {} is not the identity", tyname, p), nz(s)));
        }
        if last == "nonce" || tyname == "Nonce" {
            v.push((format!("{}: nonce {} is not the close tag", tyname, p), ne(s, CLOSE_SCALAR)));
        }
    }
    // revocation pairs: lock == canonical digest of (secret, index); the digests are the hashes computed during this decode
    let locks: Vec<&Atom> = at.iter().filter(|a| a.path.ends_with("revocation_pair.lock") || (tyname == "RevocationPair" && a.path == "lock")).collect();
    let hs = sx::with(|a| a.hashes[hashes_since..].to_vec());
    for l in locks {
        let secret_path = format!("{}secret.secret", l.path.strip_suffix("lock").unwrap());
        let sec = atoms::find(at, &secret_path);
        let h = hs.iter().find(|h| h.items.first() == Some(&sx::Item::Tok { kind: sx::K_SCALAR, id: sec.id, width: 32 }));
        match h {
            Some(h) => v.push((format!("{}: {} is the canonical SHA3 digest of its secret and index", tyname, l.path), F::and(vec![F::BlobLtQ(h.digest_var), eq(Scalar::from_term(l.term()), Scalar::from_term(sx::var_node(h.digest_var)))]))),
            None => v.push((format!("{}: {} was checked against a digest of its secret", tyname, l.path), F::False)),
        }
    }
    v
}

fn roundtrip<T: Serialize + DeserializeOwned>(tyname: &str, honest: &T) {
    let seed = SEED.with(|s| s.get());
    let l = atoms::layout(honest);
    // (a) honest value: decode forced Ok, re-encoding identical
    sx::set_label("decode-honest");
    let n0 = sx::n_decisions();
    match decode::<T>(&l.bytes) {
        None => eng::finding(&format!("C15 honest-value-does-not-decode {}", tyname), &format!("an honestly produced {} does not decode from its own encoding", tyname), None, json!({"kind":"model"})),
        Some(back) => {
            same(&format!("C15 {}: decode(encode(v)) re-encodes to the same {} bytes", tyname, l.bytes.len()), &format!("C15 roundtrip-not-lossless {}", tyname), honest, &back);
        }
    }
    all_forced(&format!("C15 {}: honest encoding is accepted for every value of its atoms", tyname), &format!("C15 honest-value-does-not-decode {}", tyname), n0, "decode-honest");
    // (b) symbolic atoms: invariants on the success path; every validation decision, flipped, must make decoding fail
    let (sb, sat) = atoms::symbolize_layout(&l, &format!("W{}", sx::n_decisions()));
    sx::set_label("decode-sym");
    let n1 = sx::n_decisions();
    let nh = sx::n_hashes();
    let ok = decode::<T>(&sb);
    let ds = decisions_since(n1);
    if ok.is_none() {
        eng::inconclusive(&format!("C15 {}: symbolic image with honest shadow values does not decode", tyname));
        return;
    }
    let hy = eng::hyps();
    for (nm, f) in invariants(tyname, &sat, nh) {
        eng::prove_under(&format!("C15 decoded {}", nm), &format!("C15 invariant-violated {}", tyname), &hy, &f);
    }
    let honest_fps: std::collections::HashSet<u64> = ds.iter().map(|d| sx::fingerprint(&d.cond)).collect();
    for k in 0..ds.len() {
        let mut seq: Vec<bool> = ds[..k].iter().map(|d| d.outcome).collect();
        seq.push(!ds[k].outcome);
        sx::set_label("decode-flip");
        let nk = sx::n_decisions();
        sx::dedupe(true);
        sx::force_seq(seq);
        let r = decode::<T>(&sb);
        sx::force_seq(vec![]);
        sx::dedupe(false);
        if r.is_some() {
            eng::finding(&format!("C15 validation-ignored {}", tyname), &format!("{}: decode-time check #{} can fail and the value is still accepted", tyname, k), None, json!({"kind":"model"}));
            continue;
        }
        // follow-up: a comparison the accepting run never made exists only because check #k failed (the right operand of an
        // `||`, a fallback branch).  If decoding succeeds when it goes the other way, that is a second accepting path: the
        // type's invariants must hold on it as well.
        let ds2 = decisions_since(nk);
        for j in (k + 1)..ds2.len() {
            if honest_fps.contains(&sx::fingerprint(&ds2[j].cond)) {
                continue;
            }
            let mut seq2: Vec<bool> = ds2[..j].iter().map(|d| d.outcome).collect();
            seq2.push(!ds2[j].outcome);
            sx::set_label("decode-flip2");
            let (n2, nh2) = (sx::n_decisions(), sx::n_hashes());
            sx::dedupe(true);
            sx::force_seq(seq2);
            let r2 = decode::<T>(&sb);
            sx::force_seq(vec![]);
            sx::dedupe(false);
            if r2.is_some() {
                let mut hy2 = eng::axioms();
                hy2.extend(decisions_since(n2).iter().map(|d| d.cond.clone().with_outcome(d.outcome)));
                for (nm, f) in invariants(tyname, &sat, nh2) {
                    eng::prove_under(&format!("C15 decoded {} (accepting path: check #{} fails, fallback #{} taken)", nm, k, j), &format!("C15 invariant-violated {}", tyname), &hy2, &f);
                }
            }
        }
    }
    // (c) each atom replaced by an encoding that is not canonical / on the curve / in the subgroup: must be refused
    let mut accepted_bad = vec![];
    for a in &sat {
        let bad = match a.kind {
            sx::K_SCALAR => sx::K_BAD_SCALAR,
            sx::K_G1 => sx::K_BAD_G1,
            sx::K_G2 => sx::K_BAD_G2,
            _ => continue,
        };
        let mut b2 = sb.clone();
        sx::write_token(&mut b2[a.off..a.off + a.width], bad, a.id);
        sx::set_label("decode-bad");
        if decode::<T>(&b2).is_some() {
            accepted_bad.push(a.path.clone());
        }
    }
    if !accepted_bad.is_empty() {
        eng::finding(&format!("C15 invalid-encoding-accepted {}", tyname), &format!("{}: an invalid element / scalar encoding is accepted at {:?} (unchecked decoder?)", tyname, accepted_bad), None, json!({"kind":"model"}));
    }
    eng::sample(json!({"type": tyname, "bytes": l.bytes.len(), "atoms": sat.len(), "decode_decisions": ds.len()}));
    let _ = seed;
}

/// C16 (E1 driver): mutated length prefixes, truncations and extensions never panic and never allocate out of proportion
fn mutate<T: Serialize + DeserializeOwned>(tyname: &str, honest: &T) {
    let l = atoms::layout(honest);
    let mut cases: Vec<(String, Vec<u8>)> = vec![];
    for f in l.fields.iter().filter(|f| f.kind == atoms::Kind::LenPrefix) {
        let n = u64::from_le_bytes(l.bytes[f.off..f.off + 8].try_into().unwrap());
        for v in [0u64, n.wrapping_sub(1), n + 1, 1 << 32, 1 << 60, u64::MAX] {
            let mut b = l.bytes.clone();
            b[f.off..f.off + 8].copy_from_slice(&v.to_le_bytes());
            cases.push((format!("length prefix of {} set to {}", f.path, v), b.clone()));
            if v == n + 1 {
                // ... and actually carrying one more (copy of the last) element
                let tail = l.bytes[f.off + 8..].to_vec();
                let elem = if n > 0 { (tail.len().min(((l.bytes.len() - f.off - 8) / n.max(1) as usize).max(1))).min(tail.len()) } else { 0 };
                let mut b3 = b.clone();
                let ins = f.off + 8;
                if elem > 0 && ins + elem <= l.bytes.len() {
                    let chunk = l.bytes[ins..ins + elem].to_vec();
                    for (k, x) in chunk.iter().enumerate() {
                        b3.insert(ins + k, *x);
                    }
                    cases.push((format!("length prefix of {} set to {} with an extra element", f.path, v), b3));
                }
            }
        }
    }
    for f in l.fields.iter().filter(|f| matches!(f.kind, atoms::Kind::Variant | atoms::Kind::OptionTag | atoms::Kind::Bool)) {
        for v in [1u8, 2, 0xff] {
            let mut b = l.bytes.clone();
            b[f.off] = v;
            cases.push((format!("tag byte of {} set to {}", f.path, v), b));
        }
    }
    // every integer field (balances, amounts, indices): the boundary patterns of its width - conversions applied at decode
    // time (negation, abs, casts) must not panic on them
    for f in l.fields.iter() {
        if let atoms::Kind::Int(w) = f.kind {
            let w = w as usize;
            if w == 0 || f.off + w > l.bytes.len() {
                continue;
            }
            let mut pats: Vec<(String, Vec<u8>)> = vec![("all zero".into(), vec![0u8; w]), ("all ones".into(), vec![0xffu8; w])];
            let mut min = vec![0u8; w];
            min[w - 1] = 0x80;
            let mut max = vec![0xffu8; w];
            max[w - 1] = 0x7f;
            let mut minp1 = min.clone();
            minp1[0] = 1;
            pats.push(("signed minimum".into(), min));
            pats.push(("signed maximum".into(), max));
            pats.push(("signed minimum + 1".into(), minp1));
            for (pn, pb) in pats {
                let mut b = l.bytes.clone();
                b[f.off..f.off + w].copy_from_slice(&pb);
                cases.push((format!("integer field {} set to {}", f.path, pn), b));
            }
        }
    }
    let mut cuts: Vec<usize> = l.fields.iter().map(|f| f.off).collect();
    cuts.push(l.bytes.len().saturating_sub(1));
    cuts.sort();
    cuts.dedup();
    for c in cuts {
        cases.push((format!("truncated to {} bytes", c), l.bytes[..c].to_vec()));
    }
    for extra in [1usize, 32] {
        let mut b = l.bytes.clone();
        b.extend(std::iter::repeat(0u8).take(extra));
        cases.push((format!("extended by {} zero bytes", extra), b));
    }
    let mut panics = vec![];
    let mut big = vec![];
    for (what, bytes) in &cases {
        sx::set_label("decode-mut");
        crate::alloc_meter::reset();
        let r = std::panic::catch_unwind(std::panic::AssertUnwindSafe(|| decode::<T>(bytes).is_some()));
        sx::force_seq(vec![]);
        let peak = crate::alloc_meter::peak();
        if r.is_err() {
            panics.push(what.clone());
        }
        if peak > (1 << 20) + 64 * bytes.len() {
            big.push(format!("{} ({} bytes requested for {} input bytes)", what, peak, bytes.len()));
        }
    }
    if !panics.is_empty() {
        eng::finding(&format!("C16 decode-panics {}", tyname), &format!("decoding a mutated {} panics: {:?}", tyname, &panics[..panics.len().min(3)]), None, json!({"kind":"decode", "type": tyname}));
    }
    if !big.is_empty() {
        eng::finding(&format!("C16 decode-overallocates {}", tyname), &format!("decoding a mutated {} requests memory out of proportion: {:?}", tyname, &big[..big.len().min(3)]), None, json!({"kind":"decode", "type": tyname}));
    }
    eng::ctx(|c| {
        c.paths += cases.len();
        c.decisions += cases.len();
        c.obligations.push(eng::ObRecord {
            name: format!("C16 {}: {} mutated images decoded under catch_unwind with allocation metering", tyname, cases.len()),
            kind: "ENUM",
            verdict: if panics.is_empty() && big.is_empty() { "held".into() } else { "violated".into() },
            answer: format!("{} panics, {} over-allocations", panics.len(), big.len()),
            ms: 0.0,
            bytes: cases.len(),
            nvars: 0,
            nasserts: 0,
            cross: vec![],
        });
    });
    eng::sample(json!({"type": tyname, "mutated_images_decoded": cases.len(), "panics": panics.len(), "over_allocations": big.len()}));
}

fn one<T: Serialize + DeserializeOwned>(mode: Mode, tyname: &str, v: &T) {
    match mode {
        Mode::Roundtrip => roundtrip(tyname, v),
        Mode::Mutate => mutate(tyname, v),
    }
}

/// builds one honest instance of every type from a protocol run and hands it to the per-type check
pub fn drive(seed: u64, _tier: Tier, mode: Mode) {
    SEED.with(|s| s.set(seed));
    sx::begin(vec![], DrawMode::NonDegenerate, seed);
    sx::set_max_decisions(200_000);
    let mut rng = SeedRng::new(seed);
    let w = world(&mut rng);
    let (ctx, pctx) = (Context::new(b"e"), Context::new(b"p"));
    // library level
    one(mode, "BlindingFactor", &bf_of(sym_scalar("bf")));
    one(mode, "Commitment<G1>", &commitment_of(G1Projective(sym_scalar("c1"))));
    one(mode, "Commitment<G2>", &commitment_of(G2Projective(sym_scalar("c2"))));
    one(mode, "PedersenParameters<G1,1>", w.merchant.revocation_commitment_parameters());
    one(mode, "PedersenParameters<G2,3>", &PedersenParameters::<G2Projective, 3>::new(&mut rng));
    one(mode, "KeyPair<5>", w.merchant.signing_keypair());
    one(mode, "PublicKey<5>", w.cust.merchant_public_key());
    let m5: [Scalar; 5] = sym_scalars("m");
    let sig = Message::new(m5).sign(&mut rng, w.merchant.signing_keypair());
    one(mode, "Signature", &sig);
    one(mode, "BlindedMessage", &Message::new(m5).blind(w.cust.merchant_public_key(), bf_of(sym_scalar("bfm"))));
    one(mode, "BlindedSignature", &sig.blind_and_randomize(&mut rng, bf_of(sym_scalar("bfs"))));
    {
        let b = CommitmentProofBuilder::<G1Projective, 1>::generate_proof_commitments(&mut rng, Message::new([sym_scalar("x")]), &[None], w.merchant.revocation_commitment_parameters());
        let c = ChallengeBuilder::new().with(&b).finish();
        one(mode, "CommitmentProof<G1,1>", &b.generate_proof_response(c));
        let b = SignatureProofBuilder::<5>::generate_proof_commitments(&mut rng, Message::new(m5), sig, &[None; 5], w.cust.merchant_public_key());
        let c = ChallengeBuilder::new().with(&b).finish();
        one(mode, "SignatureProof<5>", &b.generate_proof_response(c));
        let b = SignatureRequestProofBuilder::<5>::generate_proof_commitments(&mut rng, Message::new(m5), &[None; 5], w.cust.merchant_public_key());
        let c = ChallengeBuilder::new().with(&b).finish();
        one(mode, "SignatureRequestProof<5>", &b.generate_proof_response(c));
        let rb = RangeConstraintBuilder::generate_constraint_commitments(12345, w.cust.range_constraint_parameters(), &mut rng).unwrap();
        let c = ChallengeBuilder::new().with(&rb).finish();
        one(mode, "RangeConstraint", &rb.generate_constraint_response(c));
    }
    one(mode, "RangeConstraintParameters", w.cust.range_constraint_parameters());
    // zkAbacus level
    one(mode, "Error::InsufficientFunds", &zkabacus_crypto::Error::InsufficientFunds);
    one(mode, "Error::AmountTooLarge", &zkabacus_crypto::Error::AmountTooLarge(1 << 63));
    one(mode, "PaymentAmount", &amount(-7));
    one(mode, "CustomerBalance", &cb(100));
    one(mode, "MerchantBalance", &mb(50));
    one(mode, "Nonce", &zkabacus_crypto::internal::test_new_nonce(&mut rng));
    let pair = zkabacus_crypto::internal::test_new_revocation_pair(&mut rng);
    one::<RevocationLock>(mode, "RevocationLock", &pair.revocation_lock());
    one::<RevocationSecret>(mode, "RevocationSecret", &pair.revocation_secret());
    one::<RevocationPair>(mode, "RevocationPair", &pair);
    one::<RevocationLockCommitment>(mode, "RevocationLockCommitment", &decode(&G1Affine(sym_scalar("rlc")).to_compressed()).unwrap());
    one(mode, "CustomerRandomness", &CustomerRandomness::new(&mut rng));
    one(mode, "MerchantRandomness", &MerchantRandomness::new(&mut rng));
    let cid = channel_id(&w, &mut rng, b"m", b"c");
    one::<ChannelId>(mode, "ChannelId", &cid);
    one(mode, "customer::Config", &w.cust);
    sx::set_label("flow");
    let (req, proof) = CRequested::new(&mut rng, &w.cust, cid, mb(50), cb(100), &ctx);
    one(mode, "Requested", &req);
    one(mode, "EstablishProof", &proof);
    let (closing, vbs) = w.merchant.initialize(&mut rng, &cid, cb(100), mb(50), proof, &ctx).expect("establish");
    one::<ClosingSignature>(mode, "CloseStateBlindedSignature", &closing);
    let inactive = req.complete(closing, &w.cust).ok().expect("complete");
    one(mode, "Inactive", &inactive);
    let pt = w.merchant.activate(&mut rng, vbs);
    one::<PayToken>(mode, "BlindedPayToken", &pt);
    let ready = inactive.activate(pt, &w.cust).ok().expect("activate");
    one(mode, "Ready", &ready);
    let (started, start) = ready.start(&mut rng, amount(7), &pctx, &w.cust).ok().expect("start");
    one(mode, "Started", &started);
    one(mode, "PayProof", &start.pay_proof);
    let (unrev, closing2) = w.merchant.allow_payment(&mut rng, amount(7), &start.nonce, start.pay_proof, &pctx).expect("allow");
    let (locked, lockmsg) = started.lock(closing2, &w.cust).ok().expect("lock");
    one(mode, "Locked", &locked);
    one::<RevocationLockBlindingFactor>(mode, "RevocationLockBlindingFactor", &lockmsg.revocation_lock_blinding_factor);
    let pt2 = unrev.complete_payment(&mut rng, &lockmsg.revocation_pair, &lockmsg.revocation_lock_blinding_factor).ok().expect("complete");
    let mut ready2 = locked.unlock(pt2, &w.cust).ok().expect("unlock");
    // boundary balances inside stored states: the customer pays everything (customer balance 0), then is refunded
    // everything (merchant balance 0) - value-dependent encodings (skipped / defaulted fields) show up here
    for amt in [93i64, -150] {
        let (started, start) = ready2.start(&mut rng, amount(amt), &pctx, &w.cust).ok().expect("start (boundary)");
        one(mode, "Started", &started);
        let (unrev, closing) = w.merchant.allow_payment(&mut rng, amount(amt), &start.nonce, start.pay_proof, &pctx).expect("allow (boundary)");
        let (locked, lockmsg) = started.lock(closing, &w.cust).ok().expect("lock (boundary)");
        one(mode, "Locked", &locked);
        let pt = unrev.complete_payment(&mut rng, &lockmsg.revocation_pair, &lockmsg.revocation_lock_blinding_factor).ok().expect("complete (boundary)");
        ready2 = locked.unlock(pt, &w.cust).ok().expect("unlock (boundary)");
        one(mode, "Ready", &ready2);
    }
    let cm = ready2.close(&mut rng);
    one(mode, "ClosingMessage", &cm);
    let (csig, cs) = cm.into_parts();
    one::<CloseStateSignature>(mode, "CloseStateSignature", &csig);
    one::<CloseState>(mode, "CloseState", &cs);
    let _: Option<(CustomerBalance, MerchantBalance, PaymentAmount)> = None;
    eng::path_done();
}

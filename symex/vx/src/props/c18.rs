//! C18 — pay tokens and closing signatures can never stand in for each other.
use crate::prelude::*;
use crate::world::*;
use zkabacus_crypto::{ChannelId, CloseState, CloseStateSignature, Context, CustomerRandomness, MerchantRandomness, CLOSE_SCALAR};

pub fn run(tier: Tier, seed: u64) {
    eng::functions(&[
        "zkabacus_crypto::nonce::Nonce::{new, try_from(UncheckedNonce)} (via internal::test_new_nonce and Deserialize)",
        "zkabacus_crypto::states::{State::to_message, CloseState::to_message, ChannelId::{new, to_scalar}}",
        "zkabacus_crypto::merchant::Config::{check_close_signature, allow_payment}",
        "zkabacus_crypto::states::{PayToken::verify, CloseStateSignature::verify} (through customer transitions)",
        "zkabacus_crypto::customer::{Inactive::activate, Ready::start} on a restored state",
    ]);
    eng::bound("Nonce::new: at most 2 consecutive draws equal to the close tag (quick 1); one establish history; channel-id inputs: symbolic randomness / key atoms, account-info strings from {\"\", a, ab, b, merchant, customer}");
    nonce_generation(seed, if tier == Tier::Quick { 1 } else { 2 });
    nonce_decode(seed);
    token_vs_closing(seed);
    closing_as_token(seed);
    channel_id_binding(seed);
}

fn nonce_generation(seed: u64, d: usize) {
    let name = "C18 Nonce::new";
    let mut paths = 0;
    let st = explore(DrawMode::Free, seed, d, 64, &["gen"], |p| {
        let mut rng = SeedRng::new(seed);
        sx::set_label("gen");
        let n = zkabacus_crypto::internal::test_new_nonce(&mut rng);
        sx::set_label("post");
        let ns = atom_scalar(&atoms::atoms_of(&n), "");
        eng::prove(&format!("{} (path {:?}, {} draws): returned nonce != close tag", name, p.flips, sx::with(|a| a.draws.len())), "C18 nonce-equals-close-tag", &ne(ns, CLOSE_SCALAR));
        paths += 1;
        eng::sample(json!({"harness": name, "close_tag_draws_at_decisions": p.flips, "draws": sx::with(|a| a.draws.len())}));
    });
    if paths < 2 {
        eng::inconclusive(&format!("{}: the retry path was not explored", name));
    }
    for (p, m) in st.panics {
        eng::inconclusive(&format!("{} panicked on path {:?}: {}", name, p, m));
    }
    // crafted stream: the first draw *is* the close tag (shadow run) -> the loop must draw again
    {
        sx::begin(vec![], DrawMode::Free, seed);
        struct CloseFirst(SeedRng, bool);
        impl rand_core::RngCore for CloseFirst {
            fn next_u32(&mut self) -> u32 { self.0.next_u32() }
            fn next_u64(&mut self) -> u64 { self.0.next_u64() }
            fn fill_bytes(&mut self, d: &mut [u8]) {
                self.0.fill_bytes(d);
                if !self.1 && d.len() == 64 {
                    // 512-bit little-endian integer equal to the close tag
                    for b in d.iter_mut() { *b = 0; }
                    d[..32].copy_from_slice(&fq::to_le_bytes(&CLOSE_SCALAR.shadow()));
                    self.1 = true;
                }
            }
            fn try_fill_bytes(&mut self, d: &mut [u8]) -> Result<(), rand_core::Error> { self.fill_bytes(d); Ok(()) }
        }
        impl rand_core::CryptoRng for CloseFirst {}
        let mut rng = CloseFirst(SeedRng::new(seed), false);
        sx::set_label("gen");
        let n = zkabacus_crypto::internal::test_new_nonce(&mut rng);
        let ns = atom_scalar(&atoms::atoms_of(&n), "");
        let draws = sx::with(|a| a.draws.len());
        if ns.shadow() == CLOSE_SCALAR.shadow() || draws < 2 {
            eng::finding("C18 nonce-equals-close-tag", "a stream whose first sample is the close tag yields that sample as nonce", None, json!({"kind": "crafted-rng", "what": "close tag as first 64-byte window"}));
        }
        eng::prove("C18 Nonce::new on the crafted close-tag stream: returned nonce != close tag", "C18 nonce-equals-close-tag", &ne(ns, CLOSE_SCALAR));
        eng::path_done();
    }
}

fn nonce_decode(seed: u64) {
    for want_ok in [true, false] {
        sx::begin(vec![], DrawMode::NonDegenerate, seed);
        let s = sym_scalar("n");
        sx::force_seq(vec![!want_ok]); // the single comparison n == CLOSE_SCALAR ... (n != CLOSE is decided as !(n == CLOSE))
        let r: Option<NonceT> = decode(&s.to_bytes());
        let made = sx::n_decisions();
        if made != 1 {
            sx::force_seq(vec![]);
            eng::inconclusive(&format!("C18 Nonce decode made {} decisions (expected one comparison with the close tag)", made));
            continue;
        }
        match (want_ok, r.is_some()) {
            (true, true) => {
                eng::prove("C18 Nonce decode: Ok => value != close tag", "C18 decoded-nonce-equals-close-tag", &ne(s, CLOSE_SCALAR));
            }
            (false, false) => {
                eng::prove("C18 Nonce decode: Err => value == close tag (nothing else is refused)", "C18 nonce-decode-refuses-valid", &eq(s, CLOSE_SCALAR));
            }
            (w, g) => eng::finding("C18 decoded-nonce-equals-close-tag", &format!("Nonce decode: comparison outcome {} but result is_ok={}", !w, g), None, json!({"kind":"model"})),
        }
        eng::path_done();
    }
    // the close tag itself (concrete) is refused
    sx::begin(vec![], DrawMode::NonDegenerate, seed);
    let r: Option<NonceT> = decode(&CLOSE_SCALAR.to_bytes());
    if r.is_some() {
        eng::finding("C18 decoded-nonce-equals-close-tag", "the close tag decodes as a nonce", None, json!({"kind":"model"}));
    }
    eng::path_done();
}

/// a valid pay token presented to the merchant as closing signature on the close state sharing its other fields
fn token_vs_closing(seed: u64) {
    let name = "C18 pay token re-labelled as closing signature";
    let _ = forced_result(name, "C18 pay-token-accepted-as-closing-signature", DrawMode::NonDegenerate, seed, "closecheck", 4, false, || {
        let mut rng = SeedRng::new(seed);
        let w = world(&mut rng);
        let ctx = Context::new(b"ctx");
        let cid = channel_id(&w, &mut rng, b"m", b"c");
        let ready = establish(&w, &mut rng, cid, 100, 50, &ctx);
        // the customer's state on disk: unblinded pay token (verified on the state message during activate) and the state
        let l = atoms::layout(&ready);
        let at = atoms::atoms_of_layout(&l);
        let nonce = atom_scalar(&at, "state.nonce");
        eng::prove(&format!("{}: the state's second slot (nonce) != close tag", name), "C18 state-nonce-equals-close-tag", &ne(nonce, CLOSE_SCALAR));
        // wire image of a CloseStateSignature made of the pay token's two elements
        let f1 = atoms::find(&at, "pay_token.sigma1");
        let f2 = atoms::find(&at, "pay_token.sigma2");
        let mut sig = l.bytes[f1.off..f1.off + f1.width].to_vec();
        sig.extend_from_slice(&l.bytes[f2.off..f2.off + f2.width]);
        let relabelled: CloseStateSignature = decode(&sig).expect("signature image decodes as closing signature");
        // the close state sharing the other fields: take it from the honest closing message
        let cm = ready.close(&mut rng);
        let (_honest_sig, close_state) = cm.into_parts();
        // hints (theorems of F_q): the cancelling product  (sigma1 * Y~_2) * (nonce - CLOSE)
        let key = atoms::atoms_of(w.merchant.signing_keypair());
        let s1 = atom_scalar(&at, "pay_token.sigma1");
        let y = atom_scalar(&key, "pk.y2s.1");
        let dn = nonce - CLOSE_SCALAR;
        sx::assume(F::iff(is_z((s1 * y) * dn), F::or(vec![is_z(s1 * y), is_z(dn)])), "zero-product lemma");
        sx::assume(F::iff(is_z(s1 * y), F::or(vec![is_z(s1), is_z(y)])), "zero-product lemma");
        sx::set_label("closecheck");
        matches!(w.merchant.check_close_signature(relabelled, &close_state), zkabacus_crypto::Verification::Verified)
    });
}

/// the (unblinded) closing signature stored as pay token in a customer state: the merchant must refuse the payment
fn closing_as_token(seed: u64) {
    let name = "C18 closing signature re-labelled as pay token";
    let _ = forced_result(name, "C18 closing-signature-accepted-as-pay-token", DrawMode::NonDegenerate, seed, "verify", 1, false, || {
        let mut rng = SeedRng::new(seed);
        let w = world(&mut rng);
        let ctx = Context::new(b"ctx");
        let cid = channel_id(&w, &mut rng, b"m", b"c");
        let ready = establish(&w, &mut rng, cid, 100, 50, &ctx);
        let l = atoms::layout(&ready);
        let at = atoms::atoms_of_layout(&l);
        let mut bytes = l.bytes.clone();
        for (src, dst) in [("close_state_signature.sigma1", "pay_token.sigma1"), ("close_state_signature.sigma2", "pay_token.sigma2")] {
            let (s, d) = (atoms::find(&at, src).clone(), atoms::find(&at, dst).clone());
            let chunk = l.bytes[s.off..s.off + s.width].to_vec();
            bytes[d.off..d.off + d.width].copy_from_slice(&chunk);
        }
        let forged: CReady = decode(&bytes).expect("customer state image decodes");
        sx::set_label("cust:start");
        let (_st, start) = forged.start(&mut rng, amount(5), &ctx, &w.cust).ok().expect("start");
        // hints (theorems of F_q)
        let key = atoms::atoms_of(w.merchant.signing_keypair());
        let s1 = atom_scalar(&at, "close_state_signature.sigma1");
        let s2 = atom_scalar(&at, "close_state_signature.sigma2");
        let y = atom_scalar(&key, "pk.y2s.1");
        let nonce = atom_scalar(&at, "state.nonce");
        let dn = nonce - CLOSE_SCALAR;
        sx::assume(F::iff(is_z((s1 * y) * dn), F::or(vec![is_z(s1 * y), is_z(dn)])), "zero-product lemma");
        sx::assume(F::iff(is_z(s1 * y), F::or(vec![is_z(s1), is_z(y)])), "zero-product lemma");
        // the blinded signature shown to the merchant is (sigma1^r, ...): recover r from the proof atom
        let pat = atoms::atoms_of(&start.pay_proof);
        let s1b = atoms::find(&pat, "old_pay_token_proof.blinded_signature.sigma1").term();
        if let Node::Mul(a, b) = sx::node_of(s1b) {
            let r = Scalar::from_term(if a == s1.term() { b } else { a });
            // E = sigma1 * (X~ + sum Y~_i m_i) - sigma2 * g~  on the stored state's message
            let msg = [atom_scalar(&at, "state.channel_id"), nonce, atom_scalar(&at, "state.revocation_pair.lock"), Scalar::from(100u64), Scalar::from(50u64)];
            let mut inner = atom_scalar(&key, "pk.x2");
            for i in 0..5 {
                inner = inner + atom_scalar(&key, &format!("pk.y2s.{}", i)) * msg[i];
            }
            let e = s1 * inner - s2 * atom_scalar(&key, "pk.g2");
            sx::assume(F::iff(is_z(r * e), F::or(vec![is_z(r), is_z(e)])), "zero-product lemma");
        }
        sx::set_label("verify");
        w.merchant.allow_payment(&mut rng, amount(5), &start.nonce, start.pay_proof, &ctx).is_some()
    });
}

/// channel id = hash over all five inputs
fn channel_id_binding(seed: u64) {
    sx::begin(vec![], DrawMode::NonDegenerate, seed);
    let mut rng = SeedRng::new(seed);
    let w = world(&mut rng);
    let pk = w.cust.merchant_public_key().clone();
    let blob = |name: &str| -> (Vec<u8>, u32) {
        let b = sx::fresh_blob(name, sx::prf(seed, 5, name.as_bytes()));
        (sx::token::<32>(sx::K_DIGEST, b).to_vec(), b)
    };
    let (mr_a, va) = blob("mrand_a");
    let (mr_b, vb) = blob("mrand_b");
    let (cr_a, vc) = blob("crand_a");
    let (cr_b, vd) = blob("crand_b");
    let mk = |label: &str, mr: &[u8], cr: &[u8], pk: &zkabacus_crypto::PublicKey, mi: &[u8], ci: &[u8]| -> (ChannelId, u32) {
        sx::set_label(label);
        let m: MerchantRandomness = decode(mr).unwrap();
        let c: CustomerRandomness = decode(cr).unwrap();
        let id = ChannelId::new(m, c, pk, mi, ci);
        (id, *digest_under(label).last().unwrap())
    };
    let (_, d0) = mk("base", &mr_a, &cr_a, &pk, b"merchant", b"customer");
    let (_, d0again) = mk("again", &mr_a, &cr_a, &pk, b"merchant", b"customer");
    eng::prove("C18 ChannelId::new is deterministic (same five inputs => same id)", "C18 channel-id-not-deterministic", &F::BlobEq(d0, d0again));
    let ax = eng::axioms();
    let (_, d1) = mk("mr", &mr_b, &cr_a, &pk, b"merchant", b"customer");
    let ax = { let _ = ax; eng::axioms() };
    let (r, m) = eng::satisfiable("C18 channel id changes with the merchant randomness", "REFUTE", &ax, &F::and(vec![F::BlobEq(d0, d1), F::BlobEq(va, vb).not()]));
    if let Tri::Yes = r {
        eng::finding("C18 channel-id-ignores merchant_randomness", "two different merchant randomness values give the same channel id", m, json!({"kind":"model"}));
    }
    let (_, d2) = mk("cr", &mr_a, &cr_b, &pk, b"merchant", b"customer");
    let (r, m) = eng::satisfiable("C18 channel id changes with the customer randomness", "REFUTE", &eng::axioms(), &F::and(vec![F::BlobEq(d0, d2), F::BlobEq(vc, vd).not()]));
    if let Tri::Yes = r {
        eng::finding("C18 channel-id-ignores customer_randomness", "two different customer randomness values give the same channel id", m, json!({"kind":"model"}));
    }
    // each public-key atom
    let kl = atoms::layout(&pk);
    for a in atoms::atoms_of_layout(&kl) {
        let mut b2 = kl.bytes.clone();
        let alt = perturb(&mut b2, &a, &format!("alt_{}", a.path.replace('.', "_")));
        let pk2: zkabacus_crypto::PublicKey = decode(&b2).expect("key");
        let (_, d) = mk(&format!("pk_{}", a.path), &mr_a, &cr_a, &pk2, b"merchant", b"customer");
        let (r, m) = eng::satisfiable(&format!("C18 channel id changes with key element {}", a.path), "REFUTE", &eng::axioms(), &F::and(vec![F::BlobEq(d0, d), ne(Scalar::from_term(a.term()), alt)]));
        if let Tri::Yes = r {
            eng::finding(&format!("C18 channel-id-ignores key.{}", a.path), "two keys differing in one element give the same channel id", m, json!({"kind":"model"}));
        }
    }
    // account-info strings (single-input changes, including prefix-related pairs)
    let strs: [&[u8]; 6] = [b"", b"a", b"ab", b"b", b"merchant", b"customer"];
    let mut pairs: Vec<(Vec<u8>, Vec<u8>, Vec<&[u8]>)> = vec![];
    for (i, x) in strs.iter().enumerate() {
        for (j, y) in strs.iter().enumerate() {
            if i < j {
                pairs.push((x.to_vec(), y.to_vec(), vec![&b"b"[..], &b""[..], &b"customer"[..]]));
            }
        }
    }
    // ... and pairs that only a non-injective padding / truncation would identify: trailing NULs, empty vs zeros, long
    // strings (70 bytes; 200 bytes > one SHA3-256 block) differing in their last byte only
    let long_a: Vec<u8> = (0..200u32).map(|i| (i % 251) as u8 + 1).collect();
    let mut long_b = long_a.clone();
    *long_b.last_mut().unwrap() ^= 1;
    let (mid_a, mut mid_b) = (long_a[..70].to_vec(), long_a[..70].to_vec());
    mid_b[69] ^= 1;
    for (x, y) in [(b"a".to_vec(), b"a\0".to_vec()), (vec![], vec![0u8]), (vec![], vec![0u8; 20]), (vec![0u8], vec![0u8; 20]), (b"merchant".to_vec(), b"merchant\0\0".to_vec()), (long_a, long_b), (mid_a, mid_b)] {
        pairs.push((x, y, vec![&b"b"[..]]));
    }
    for (n, (x, y, fixeds)) in pairs.iter().enumerate() {
        let show = |b: &[u8]| if b.len() > 12 { format!("<{} bytes>", b.len()) } else { format!("{:?}", String::from_utf8_lossy(b)) };
        for (k, fixed) in fixeds.iter().enumerate() {
            let (_, da) = mk(&format!("mi{}_{}", n, k), &mr_a, &cr_a, &pk, x, fixed);
            let (_, db) = mk(&format!("mj{}_{}", n, k), &mr_a, &cr_a, &pk, y, fixed);
            eng::prove(&format!("C18 channel id changes with merchant account info {} -> {} (customer info {})", show(x), show(y), show(fixed)), "C18 channel-id-ignores merchant_account_info", &F::BlobEq(da, db).not());
            let (_, dc) = mk(&format!("ci{}_{}", n, k), &mr_a, &cr_a, &pk, fixed, x);
            let (_, dd) = mk(&format!("cj{}_{}", n, k), &mr_a, &cr_a, &pk, fixed, y);
            eng::prove(&format!("C18 channel id changes with customer account info {} -> {} (merchant info {})", show(x), show(y), show(fixed)), "C18 channel-id-ignores customer_account_info", &F::BlobEq(dc, dd).not());
        }
    }
    eng::path_done();
    let _: Option<CloseState> = None;
}

//! C09 — commitments are the exact Pedersen map and open only to what was committed.
use crate::prelude::*;
use zkchannels_crypto::SerializeElement;

pub fn run(tier: Tier, seed: u64) {
    eng::functions(&[
        "zkchannels_crypto::pedersen::Commitment::new",
        "zkchannels_crypto::pedersen::Commitment::verify_opening",
        "zkchannels_crypto::pedersen::Commitment::to_element",
        "zkchannels_crypto::Message::commit",
        "zkchannels_crypto::pedersen::PedersenParameters::{new, from_generators}",
        "zkchannels_crypto::pointcheval_sanders::PublicKey: ToPedersenParameters<G1>, <G2>",
        "zkchannels_crypto::common::inner_product",
    ]);
    eng::bound("tuple length N in {1,2,3,5,8,13} in both tiers; groups G1 and G2; one instantiation each");
    eng::assumption("generators passed to from_generators are arbitrary (possibly identity) unless a lemma says otherwise");
    crate::for_each_n_all!(unit, seed, tier);
}

fn unit<const N: usize>(seed: u64, tier: Tier) {
    one::<G1Projective, N>(seed);
    one::<G2Projective, N>(seed);
    from_key::<N>(seed);
    generated::<G1Projective, N>(seed, tier);
    generated::<G2Projective, N>(seed, tier);
}

fn reference<G: SymGroup, const N: usize>(h: G, gs: &[G; N], m: &[Scalar; N], r: Scalar) -> Scalar {
    // independent evaluation of h^r * prod g_i^m_i on discrete logarithms
    let mut acc = h.dlog() * r;
    for i in 0..N {
        acc = acc + gs[i].dlog() * m[i];
    }
    acc
}

fn one<G: SymGroup + GroupEncoding + SerializeElement, const N: usize>(seed: u64) {
    let tag = format!("{}/N={}", G::GNAME, N);
    // ---- (1) exact map
    {
        sx::begin(vec![], DrawMode::NonDegenerate, seed);
        let h = G::sym("h");
        let gs: [G; N] = sym_elems("g");
        let params = PedersenParameters::from_generators(h, gs);
        let m: [Scalar; N] = sym_scalars("m");
        let r = sym_scalar("r");
        let com = Message::new(m).commit(&params, bf_of(r));
        eng::prove(&format!("C09 map {}: commit == h^r*prod g_i^m_i", tag), "C09 commitment-map", &eq(com.to_element().dlog(), reference(h, &gs, &m, r)));
        eng::path_done();
    }
    // ---- (2) verify_opening on an arbitrary commitment value and an arbitrary opening: every path (any comparison the
    //          implementation makes may go either way), result <=> recomputed == given
    let st = explore(DrawMode::NonDegenerate, seed, 3, 256, &["verify"], |p| {
        let h = G::sym("h");
        let gs: [G; N] = sym_elems("g");
        let params = PedersenParameters::from_generators(h, gs);
        let m: [Scalar; N] = sym_scalars("m");
        let r = sym_scalar("r");
        let c = G::sym("c");
        let refv = reference(h, &gs, &m, r);
        sx::set_label("verify");
        let res = commitment_of(c).verify_opening(&params, bf_of(r), &Message::new(m));
        if !path_feasible(&format!("C09 verify_opening {}", tag), p) {
            return;
        }
        eng::prove(&format!("C09 verify_opening({}) <=> recomputed == given  {} path {:?}", res, tag, p.flips), "C09 verify-opening-exact", &F::iff(tf(res), eq(c.dlog(), refv)));
    });
    if st.paths < 2 {
        eng::inconclusive(&format!("C09 verify_opening {}: fewer than two paths explored", tag));
    }
    for (p, m) in st.panics {
        eng::inconclusive(&format!("C09 verify_opening {} panicked on path {:?}: {}", tag, p, m));
    }
    // ---- (3) original opening accepted for all values
    {
        sx::begin(vec![], DrawMode::NonDegenerate, seed);
        let h = G::sym("h");
        let gs: [G; N] = sym_elems("g");
        let params = PedersenParameters::from_generators(h, gs);
        let m: [Scalar; N] = sym_scalars("m");
        let r = sym_scalar("r");
        let com = Message::new(m).commit(&params, bf_of(r));
        let n0 = sx::n_decisions();
        let res = com.verify_opening(&params, bf_of(r), &Message::new(m));
        let ds = decisions_since(n0);
        let forced = ds.iter().all(|d| matches!(eng::valid(&format!("C09 original opening forced {}", tag), &eng::axioms(), &d.cond.clone().with_outcome(true)), Tri::Yes));
        if !(res && forced) && !ds.is_empty() {
            eng::finding("C09 original-opening", &format!("{}: the original opening is not accepted for every message/blinding factor", tag), None, json!({"kind":"none"}));
        }
        // homomorphism
        let m2: [Scalar; N] = sym_scalars("mm");
        let r2 = sym_scalar("rr");
        let com2 = Message::new(m2).commit(&params, bf_of(r2));
        let mut ms = [Scalar::zero(); N];
        for i in 0..N {
            ms[i] = m[i] + m2[i];
        }
        let com3 = Message::new(ms).commit(&params, bf_of(r + r2));
        eng::prove(&format!("C09 additive {}", tag), "C09 homomorphism", &eq((com.to_element() + com2.to_element()).dlog(), com3.to_element().dlog()));
        eng::path_done();
    }
    // ---- (4) single-coordinate / blinding-factor perturbation: both openings accepted => coordinate equal
    for j in 0..=N {
        sx::begin(vec![true, true], DrawMode::NonDegenerate, seed);
        let h = G::sym("h");
        let gs: [G; N] = sym_elems("g");
        let params = PedersenParameters::from_generators(h, gs);
        let m: [Scalar; N] = sym_scalars("m");
        let r = sym_scalar("r");
        let c = commitment_of(G::sym("c"));
        let mut m2 = m;
        let mut r2 = r;
        let (a, b, gen) = if j < N {
            m2[j] = sym_scalar("alt");
            (m[j], m2[j], gs[j].dlog())
        } else {
            r2 = sym_scalar("alt");
            (r, r2, h.dlog())
        };
        let ok1 = c.verify_opening(&params, bf_of(r), &Message::new(m));
        let ok2 = c.verify_opening(&params, bf_of(r2), &Message::new(m2));
        assert!(ok1 && ok2);
        let what = if j < N { format!("coordinate {}", j) } else { "blinding factor".to_string() };
        // with a non-identity generator two accepted openings agree in that slot
        let mut h1 = eng::hyps();
        h1.push(nz(gen));
        // the cancelling product: gen * (a - b)
        let prod = gen * (a - b);
        h1.push(F::iff(is_z(prod), F::or(vec![is_z(gen), is_z(a - b)])));
        eng::prove_under(&format!("C09 opening unique in {} ({})", what, tag), "C09 opening-unique", &h1, &eq(a, b));
        // vacuity twin: with an identity generator the slot is free (must be satisfiable)
        let mut h0 = eng::hyps();
        h0.push(is_z(gen));
        let (w, _) = eng::satisfiable(&format!("C09 twin: identity generator frees {} ({})", what, tag), "TWIN", &h0, &ne(a, b));
        if !matches!(w, Tri::Yes) {
            eng::inconclusive(&format!("C09 vacuity twin for {} {} did not come back sat", what, tag));
        }
        eng::path_done();
    }
}

/// parameters derived from a public key use (g1, Y1..) for G1 and (g2, Y~1..) for G2
fn from_key<const N: usize>(seed: u64) {
    sx::begin(vec![], DrawMode::NonDegenerate, seed);
    let mut rng = SeedRng::new(seed);
    let kp = KeyPair::<N>::new(&mut rng);
    let pk = kp.public_key();
    let at = atoms::atoms_of(pk);
    let g1 = Scalar::from_term(atoms::find(&at, "g1").term());
    let g2 = Scalar::from_term(atoms::find(&at, "g2").term());
    let m: [Scalar; N] = sym_scalars("m");
    let r = sym_scalar("r");
    let p1: PedersenParameters<G1Projective, N> = pk.to_pedersen_parameters();
    let p2: PedersenParameters<G2Projective, N> = pk.to_pedersen_parameters();
    let c1 = Message::new(m).commit(&p1, bf_of(r)).to_element().dlog();
    let c2 = Message::new(m).commit(&p2, bf_of(r)).to_element().dlog();
    let mut r1 = g1 * r;
    let mut r2 = g2 * r;
    for i in 0..N {
        r1 = r1 + Scalar::from_term(atoms::find(&at, &format!("y1s.{}", i)).term()) * m[i];
        r2 = r2 + Scalar::from_term(atoms::find(&at, &format!("y2s.{}", i)).term()) * m[i];
    }
    eng::prove(&format!("C09 key->G1 parameters N={}", N), "C09 key-parameters-G1", &eq(c1, r1));
    eng::prove(&format!("C09 key->G2 parameters N={}", N), "C09 key-parameters-G2", &eq(c2, r2));
    eng::path_done();
}

/// generated parameters: all generators non-identity on every returning path (bounded retries)
fn generated<G: SymGroup + GroupEncoding + SerializeElement, const N: usize>(seed: u64, tier: Tier) {
    let d = if tier == Tier::Quick { 1 } else { 2 };
    eng::bound(&format!("PedersenParameters::new: paths with at most {} degenerate (identity) draws", d));
    let st = explore(DrawMode::Free, seed, d, 400, &[], |_p| {
        let mut rng = SeedRng::new(seed);
        let params = PedersenParameters::<G, N>::new(&mut rng);
        let at = atoms::atoms_of(&params);
        let hy = eng::hyps();
        for a in &at {
            eng::prove_under(&format!("C09/C19 generated {} N={} {} non-identity", G::GNAME, N, a.path), "C09 generated-nonidentity", &hy, &nz(Scalar::from_term(a.term())));
        }
    });
    for (p, m) in st.panics {
        eng::inconclusive(&format!("PedersenParameters::new panicked on path {:?}: {}", p, m));
    }
}

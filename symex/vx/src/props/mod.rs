use crate::eng::Tier;
pub mod c01;
pub mod c02;
pub mod c03;
pub mod c04;
pub mod c05;
pub mod c06;
pub mod c07;
pub mod c08;
pub mod c09;
pub mod c10;
pub mod c11;
pub mod c12;
pub mod c13;
pub mod c14;
pub mod c15;
pub mod c16;
pub mod c18;
pub mod c19;
pub mod c20;

pub fn run(prop: &str, tier: Tier, seed: u64) {
    match prop {
        "C01" => c01::run(tier, seed),
        "C02" => c02::run(tier, seed),
        "C03" => c03::run(tier, seed),
        "C04" => c04::run(tier, seed),
        "C05" => c05::run(tier, seed),
        "C06" => c06::run(tier, seed),
        "C07" => c07::run(tier, seed),
        "C08" => c08::run(tier, seed),
        "C09" => c09::run(tier, seed),
        "C10" => c10::run(tier, seed),
        "C11" => c11::run(tier, seed),
        "C12" => c12::run(tier, seed),
        "C13" => c13::run(tier, seed),
        "C14" => c14::run(tier, seed),
        "C15" => c15::run(tier, seed),
        "C16" => c16::run(tier, seed),
        "C18" => c18::run(tier, seed),
        "C19" => c19::run(tier, seed),
        "C20" => c20::run(tier, seed),
        _ => crate::eng::inconclusive(&format!("no E1 harness for {}", prop)),
    }
}

/// message-tuple lengths instantiated per tier
#[macro_export]
macro_rules! for_each_n {
    ($tier:expr, $f:ident $(, $arg:expr)*) => {{
        $f::<1>($($arg),*);
        $f::<2>($($arg),*);
        $f::<3>($($arg),*);
        $f::<5>($($arg),*);
        if $tier == $crate::eng::Tier::Thorough {
            $f::<8>($($arg),*);
            $f::<13>($($arg),*);
        }
    }};
}

/// all tuple lengths of the property's quantifier in every tier (for harnesses cheap enough: C07, C09)
#[macro_export]
macro_rules! for_each_n_all {
    ($f:ident $(, $arg:expr)*) => {{
        $f::<1>($($arg),*);
        $f::<2>($($arg),*);
        $f::<3>($($arg),*);
        $f::<5>($($arg),*);
        $f::<8>($($arg),*);
        $f::<13>($($arg),*);
    }};
}

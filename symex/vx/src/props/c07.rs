//! C07 — signature verification accepts exactly the Pointcheval-Sanders relation.
use crate::prelude::*;

pub fn run(_tier: Tier, seed: u64) {
    eng::functions(&[
        "zkchannels_crypto::pointcheval_sanders::Signature::{new, randomize, blind_and_randomize, verify, is_well_formed}",
        "zkchannels_crypto::pointcheval_sanders::BlindedSignature::{new, unblind, randomize}",
        "zkchannels_crypto::pointcheval_sanders::{KeyPair::new, PublicKey::try_from, VerifiedBlindedMessage::blind_sign}",
        "zkchannels_crypto::Message::{sign, blind}",
    ]);
    eng::bound("N in {1,2,3,5,8,13} in both tiers; all verifier paths; derivation chains of length <= 3; re-randomiser draws: generic (non-zero) and exactly zero");
    crate::for_each_n_all!(unit, seed);
}

fn unit<const N: usize>(seed: u64) {
    key_elements_independent::<N>(seed);
    exact::<N>(seed);
    boundary_entries::<N>(seed);
    chains::<N>(seed);
    uniqueness::<N>(seed);
}

fn pk_ref<const N: usize>(pat: &[Atom], m: &[Scalar; N], s1: Scalar, s2: Scalar) -> F {
    let mut inner = atom_scalar(pat, "x2");
    for i in 0..N {
        inner = inner + atom_scalar(pat, &format!("y2s.{}", i)) * m[i];
    }
    F::and(vec![nz(s1), eq(s1 * inner, s2 * atom_scalar(pat, "g2"))])
}

/// verify on symbolic (key, message, sigma1, sigma2): all paths, result <=> relation
fn exact<const N: usize>(seed: u64) {
    let name = format!("C07 Signature::verify<{}>", N);
    let st = explore(DrawMode::Free, seed, 8, 64, &["verify"], |p| {
        let mut rng = SeedRng::new(seed);
        let kp = KeyPair::<N>::new(&mut rng);
        let m: [Scalar; N] = sym_scalars("m");
        let honest = Message::new(m).sign(&mut rng, &kp);
        let (pk, pat, _) = atoms::symbolize(kp.public_key(), "pk");
        let l = atoms::layout(&honest);
        let (sb, sat) = atoms::symbolize_layout(&l, "S");
        sx::set_label("verify");
        // decoding (Signature::try_from) is the only way an outsider's signature enters the library
        let res = match decode::<Signature>(&sb) {
            Some(sig) => sig.verify(&pk, &Message::new(m)),
            None => false,
        };
        let r = pk_ref::<N>(&pat, &m, atom_scalar(&sat, "sigma1"), atom_scalar(&sat, "sigma2"));
        if path_feasible(&name, p) {
            eng::prove(&format!("{}: result={} <=> (sigma1 != 1 /\\ e(sigma1, X~ prod Y~^m) = e(sigma2, g~))  path {:?}", name, res, p.flips), "C07 verify-exact", &F::iff(tf(res), r));
        }
    });
    for (p, m) in st.panics {
        eng::inconclusive(&format!("{} panicked on path {:?}: {}", name, p, m));
    }
}

/// every signature produced through the API verifies on its message (non-zero re-randomisers);
/// with a zero re-randomiser the result never verifies
fn chains<const N: usize>(seed: u64) {
    let chains: Vec<Vec<&str>> = vec![
        vec![],
        vec!["rand"],
        vec!["rand", "rand"],
        vec!["blind"],
        vec!["rand", "blind"],
        vec!["blind", "rand"],
        vec!["blindsign"],
        vec!["blindsign", "rand"],
        vec!["blindsign", "blind", "rand"],
    ];
    for ch in chains {
        for zero in [false, true] {
            if zero && !ch.iter().any(|s| *s == "rand" || *s == "blind") {
                continue;
            }
            let name = format!("C07 chain sign{}{} N={}{}", if ch.is_empty() { "" } else { "->" }, ch.join("->"), N, if zero { " [last re-randomiser = 0]" } else { "" });
            let chc = ch.clone();
            let _ = forced_result(&name, if zero { "C07 degenerate-signature-verifies" } else { "C07 derived-signature-rejected" }, DrawMode::Free, seed, "verify", 8, !zero, || {
                let mut rng = crate::rng::OnDemandZeroRng::new(seed);
                let kp = KeyPair::<N>::new(&mut rng);
                let m: [Scalar; N] = sym_scalars("m");
                let msg = Message::new(m);
                let mut nonzero_draws: Vec<Scalar> = vec![];
                let mark = |v: &mut Vec<Scalar>| {
                    let t = sx::with(|a| a.vars[*a.draws.last().unwrap() as usize].node);
                    v.push(Scalar::from_term(t));
                };
                let mut sig = if chc.first() == Some(&"blindsign") {
                    let bf = sym_scalar("bf0");
                    let bm = msg.blind(kp.public_key(), bf_of(bf));
                    // a verified blinded message can only come out of a verifying request proof
                    let b = SignatureRequestProofBuilder::<N>::generate_proof_commitments(&mut rng, Message::new(m), &[None; N], kp.public_key());
                    let bfb = b.message_blinding_factor();
                    let c = ChallengeBuilder::new().with(&b).finish();
                    let proof = b.generate_proof_response(c);
                    let vbm = proof.verify_knowledge_of_opening(kp.public_key(), c).expect("honest request verifies");
                    let _ = bm;
                    let bs = vbm.blind_sign(&kp, &mut rng);
                    mark(&mut nonzero_draws);
                    bs.unblind(bfb)
                } else {
                    msg.sign(&mut rng, &kp)
                };
                let steps: Vec<&str> = chc.iter().filter(|s| **s != "blindsign").cloned().collect();
                let last_rr = steps.len().saturating_sub(1);
                for (i, s) in steps.iter().enumerate() {
                    // the re-randomiser is the only draw of either step
                    rng.zero_next = zero && i == last_rr;
                    match *s {
                        "rand" => {
                            sig.randomize(&mut rng);
                        }
                        _ => {
                            let bf = bf_of(sym_scalar(&format!("bf{}", i + 1)));
                            sig = sig.blind_and_randomize(&mut rng, bf).unblind(bf);
                        }
                    }
                    let t = Scalar::from_term(sx::with(|a| a.vars[*a.draws.last().unwrap() as usize].node));
                    if zero && i == last_rr {
                        sx::assume(is_z(t), "last re-randomiser is zero");
                        // steer the shadow values as well: re-run is not needed, the assumption alone decides forcedness
                    } else {
                        nonzero_draws.push(t);
                    }
                }
                for t in &nonzero_draws {
                    sx::assume(nz(*t), "re-randomiser / signing draw non-zero");
                }
                sx::set_label("verify");
                sig.verify(kp.public_key(), &msg)
            });
        }
    }
}

/// an accepted signature pins the message coordinate, the key elements and the blinding factor
/// "verifies on no tuple differing in any coordinate" needs the Y_i of a generated key to be independent elements: with
/// y_i = y_j a signature covers the sum of the two entries.  Checked on the key generator the harnesses below use.
fn key_elements_independent<const N: usize>(seed: u64) {
    sx::begin(vec![], DrawMode::NonDegenerate, seed);
    let mut rng = SeedRng::new(seed);
    let kp = KeyPair::<N>::new(&mut rng);
    let at = atoms::atoms_of(&kp);
    let ys: Vec<(String, Scalar)> = at.iter().filter(|a| a.path.starts_with("pk.y2s.") || a.path == "pk.x2").map(|a| (a.path.clone(), Scalar::from_term(a.term()))).collect();
    independent_generators(&format!("C07 KeyPair<{}>::new", N), "C07 key-elements-not-independent", &eng::axioms(), &ys);
    eng::path_done();
}

fn uniqueness<const N: usize>(seed: u64) {
    for j in 0..N {
        sx::begin(vec![], DrawMode::NonDegenerate, seed);
        let mut rng = SeedRng::new(seed);
        let kp = KeyPair::<N>::new(&mut rng);
        let pat = atoms::atoms_of(kp.public_key());
        let m: [Scalar; N] = sym_scalars("m");
        let sig = Message::new(m).sign(&mut rng, &kp);
        let mut m2 = m;
        m2[j] = sym_scalar("alt");
        let (ra, rb) = same_path(|| sig.verify(kp.public_key(), &Message::new(m)), || sig.verify(kp.public_key(), &Message::new(m2)));
        assert!(ra && rb);
        // sigma1 * Y~_j * (m_j - m'_j) == 0 with sigma1 != 1 and Y~_j != 1 (both in the path condition / key generation)
        let s1 = Scalar::from_term(atoms::atoms_of(&sig)[0].term());
        let yj = atom_scalar(&pat, &format!("y2s.{}", j));
        let mut h = eng::hyps();
        h.push(F::iff(is_z(s1 * yj), F::or(vec![is_z(s1), is_z(yj)])));
        unique_under(&format!("C07 N={}: a signature accepted on two messages differing only in coordinate {} => equal", N, j), "C07 message-coordinate-binding", &h, Some(s1 * yj), m[j], m2[j]);
        eng::path_done();
    }
    // wrong blinding factor at unblinding
    {
        sx::begin(vec![], DrawMode::NonDegenerate, seed);
        let mut rng = SeedRng::new(seed);
        let kp = KeyPair::<N>::new(&mut rng);
        let pat = atoms::atoms_of(kp.public_key());
        let m: [Scalar; N] = sym_scalars("m");
        let sig = Message::new(m).sign(&mut rng, &kp);
        let (bf, bf2) = (sym_scalar("bf"), sym_scalar("bf2"));
        let bs = sig.blind_and_randomize(&mut rng, bf_of(bf));
        let (u1, u2) = (bs.unblind(bf_of(bf)), bs.unblind(bf_of(bf2)));
        let (ra, rb) = same_path(|| u1.verify(kp.public_key(), &Message::new(m)), || u2.verify(kp.public_key(), &Message::new(m)));
        assert!(ra && rb);
        let s1 = Scalar::from_term(atoms::atoms_of(&u1)[0].term());
        let g2 = atom_scalar(&pat, "g2");
        let mut h = eng::hyps();
        h.push(F::iff(is_z(s1 * g2), F::or(vec![is_z(s1), is_z(g2)])));
        unique_under(&format!("C07 N={}: unblinding with two blinding factors both verify => equal", N), "C07 blinding-factor-binding", &h, Some(s1 * g2), bf, bf2);
        eng::path_done();
    }
    // key element substitution: x2, each y2
    for j in 0..=N {
        sx::begin(vec![], DrawMode::NonDegenerate, seed);
        let mut rng = SeedRng::new(seed);
        let kp = KeyPair::<N>::new(&mut rng);
        let m: [Scalar; N] = sym_scalars("m");
        let sig = Message::new(m).sign(&mut rng, &kp);
        let l = atoms::layout(kp.public_key());
        let at = atoms::atoms_of_layout(&l);
        let target = if j < N { format!("y2s.{}", j) } else { "x2".to_string() };
        let a = atoms::find(&at, &target).clone();
        let mut b2 = l.bytes.clone();
        let alt = perturb(&mut b2, &a, "altkey");
        let pk2: PublicKey<N> = decode(&b2).expect("key decodes");
        let (ra, rb) = same_path(|| sig.verify(kp.public_key(), &Message::new(m)), || sig.verify(&pk2, &Message::new(m)));
        assert!(ra && rb);
        let s1 = Scalar::from_term(atoms::atoms_of(&sig)[0].term());
        let factor = if j < N { s1 * m[j] } else { s1 };
        let mut h = eng::hyps();
        if j < N {
            h.push(F::iff(is_z(s1 * m[j]), F::or(vec![is_z(s1), is_z(m[j])])));
        }
        unique_under(&format!("C07 N={}: a signature accepted under two keys differing only in {} => equal (message coordinate non-zero)", N, target), "C07 key-binding", &h, Some(factor), Scalar::from_term(a.term()), alt);
        eng::path_done();
    }
}

/// Concrete boundary entries (constants are their own byte encodings in the stand-in, so code that inspects the bytes or
/// bits of a message entry - a small-value fast path, a hand-written ladder - runs on real data): honest signatures on
/// them verify, and moving one entry across a word / sign boundary makes verification fail.
fn boundary_entries<const N: usize>(seed: u64) {
    sx::begin(vec![], DrawMode::NonDegenerate, seed);
    let two = |k: u32| -> Scalar {
        let mut s = Scalar::one();
        for _ in 0..k {
            s = s.double();
        }
        s
    };
    let vals: Vec<(&str, Scalar)> = vec![
        ("0", Scalar::zero()),
        ("1", Scalar::one()),
        ("q-1", -Scalar::one()),
        ("2^32", two(32)),
        ("2^63-1", two(63) - Scalar::one()),
        ("2^63", two(63)),
        ("2^63+5", two(63) + Scalar::from(5u64)),
        ("2^64-1", two(64) - Scalar::one()),
        ("2^64", two(64)),
        ("2^128+1", two(128) + Scalar::one()),
        ("2^254", two(254)),
    ];
    let mut rng = SeedRng::new(seed);
    let kp = KeyPair::<N>::new(&mut rng);
    let mut bad_honest = vec![];
    let mut bad_changed = vec![];
    let mut k = 0;
    for (vi, (vn, v)) in vals.iter().enumerate() {
        for pos in [0, N - 1] {
            let mut m = [Scalar::from(7u64); N];
            for (i, x) in m.iter_mut().enumerate() {
                *x = vals[(vi + 1 + i) % vals.len()].1;
            }
            m[pos] = *v;
            sx::set_label("sign");
            let sig = Message::new(m).sign(&mut rng, &kp);
            // each outcome below is first observed on the shadow values and then shown to be forced for EVERY key and
            // signing randomness (solver), so the statement is not about one sampled key
            k += 1;
            let lab = format!("bv{}", k);
            sx::set_label(&lab);
            let n0 = sx::n_decisions();
            if !sig.verify(kp.public_key(), &Message::new(m)) {
                bad_honest.push(format!("entry {} at position {}", vn, pos));
            } else {
                all_forced(&format!("C07 boundary entry {} at position {} (N={}): honest signature verifies", vn, pos, N), "C07 boundary-entry-honest-signature-rejected", n0, &lab);
            }
            for (dn, d) in [("+2^63", two(63)), ("+1", Scalar::one())] {
                let mut m2 = m;
                m2[pos] = m2[pos] + d;
                k += 1;
                let lab = format!("bv{}", k);
                sx::set_label(&lab);
                let n0 = sx::n_decisions();
                // (the rejection is observed on the shadow values of the key: that it holds for every key is the general
                // statement of `exact` above; here the point is that the concrete entry bytes are handled correctly)
                let _ = n0;
                if sig.verify(kp.public_key(), &Message::new(m2)) {
                    bad_changed.push(format!("entry {} at position {} changed by {}", vn, pos, dn));
                }
            }
            if N == 1 {
                break;
            }
        }
    }
    if !bad_honest.is_empty() {
        eng::finding(&format!("C07 boundary-entry-honest-signature-rejected N={}", N), &format!("N={}: honest signatures are rejected for {:?}", N, bad_honest), None, json!({"kind": "none"}));
    }
    if !bad_changed.is_empty() {
        eng::finding(&format!("C07 boundary-entry-change-accepted N={}", N), &format!("N={}: a signature still verifies after {:?}", N, bad_changed), None, json!({"kind": "none"}));
    }
    eng::path_done();
}

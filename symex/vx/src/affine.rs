//! Constructive counterexample search for verifier-style path conditions.
//!
//! On an accepting path of a Schnorr / pairing verifier the recorded equalities are *affine* in the prover-controlled
//! atoms X (responses, scalar commitments, second signature elements) once every other variable (key, challenge,
//! commitments multiplied by the challenge) is fixed to its shadow value.  The shadow assignment x0 already satisfies
//! them, so any kernel vector n of the coefficient matrix A gives another solution x0 + n; if the goal's linear form g
//! has g.n != 0 the goal fails there.  This finds in milliseconds the counterexample ("the check was dropped: here
//! is an accepted proof violating the relation") that a model search over Int-mod-q does not find in minutes.
//! The candidate is then evaluated natively on ALL hypotheses and confirmed by the solver on the ground system.
use bls12_381::fq::{self, U256};
use bls12_381::symex::{self as sx, Node, Tid, F};
use std::collections::{BTreeMap, HashMap, HashSet};

type Lin = (BTreeMap<u32, U256>, U256);

fn affine_in(t: Tid, x: &HashSet<u32>, memo: &mut HashMap<Tid, Option<Lin>>) -> Option<Lin> {
    if let Some(r) = memo.get(&t) {
        return r.clone();
    }
    let r: Option<Lin> = match sx::node_of(t) {
        Node::Const(c) => Some((BTreeMap::new(), c)),
        Node::Limb(_, _) => Some((BTreeMap::new(), sx::shadow_of(t))),
        Node::Var(v) => {
            if x.contains(&v) {
                let mut m = BTreeMap::new();
                m.insert(v, fq::ONE);
                Some((m, fq::ZERO))
            } else {
                Some((BTreeMap::new(), sx::shadow_of(t)))
            }
        }
        Node::Neg(a) => affine_in(a, x, memo).map(|(m, c)| (m.into_iter().map(|(k, v)| (k, fq::neg(&v))).collect(), fq::neg(&c))),
        Node::Add(a, b) | Node::Sub(a, b) => {
            let sub = matches!(sx::node_of(t), Node::Sub(_, _));
            match (affine_in(a, x, memo), affine_in(b, x, memo)) {
                (Some((mut m, c)), Some((m2, c2))) => {
                    for (k, v) in m2 {
                        let v = if sub { fq::neg(&v) } else { v };
                        let e = m.entry(k).or_insert(fq::ZERO);
                        *e = fq::add(e, &v);
                    }
                    let c2 = if sub { fq::neg(&c2) } else { c2 };
                    Some((m, fq::add(&c, &c2)))
                }
                _ => None,
            }
        }
        Node::Mul(a, b) => match (affine_in(a, x, memo), affine_in(b, x, memo)) {
            (Some((ma, ca)), Some((mb, cb))) => {
                if ma.values().all(|v| *v == fq::ZERO) {
                    Some((mb.into_iter().map(|(k, v)| (k, fq::mul(&v, &ca))).collect(), fq::mul(&ca, &cb)))
                } else if mb.values().all(|v| *v == fq::ZERO) {
                    Some((ma.into_iter().map(|(k, v)| (k, fq::mul(&v, &cb))).collect(), fq::mul(&ca, &cb)))
                } else {
                    None
                }
            }
            _ => None,
        },
    };
    memo.insert(t, r.clone());
    r
}

fn collect_eqs(f: &F, positive: bool, eqs: &mut Vec<Tid>) {
    match f {
        F::EqZ(t) if positive => eqs.push(*t),
        F::Not(x) => collect_eqs(x, !positive, eqs),
        F::And(xs) if positive => xs.iter().for_each(|x| collect_eqs(x, true, eqs)),
        _ => {}
    }
}

/// kernel basis of the row set `rows` (each a sparse linear form over `cols`) over F_q
fn kernel(rows: &[BTreeMap<u32, U256>], cols: &[u32]) -> Vec<HashMap<u32, U256>> {
    let idx: HashMap<u32, usize> = cols.iter().enumerate().map(|(i, c)| (*c, i)).collect();
    let n = cols.len();
    let mut a: Vec<Vec<U256>> = rows
        .iter()
        .map(|r| {
            let mut v = vec![fq::ZERO; n];
            for (k, c) in r {
                if let Some(i) = idx.get(k) {
                    v[*i] = *c;
                }
            }
            v
        })
        .filter(|v| v.iter().any(|c| *c != fq::ZERO))
        .collect();
    // reduced row echelon form
    let mut pivots: Vec<usize> = vec![];
    let mut r = 0;
    for c in 0..n {
        if r >= a.len() {
            break;
        }
        let Some(p) = (r..a.len()).find(|i| a[*i][c] != fq::ZERO) else { continue };
        a.swap(r, p);
        let inv = fq::inv(&a[r][c]);
        for j in c..n {
            a[r][j] = fq::mul(&a[r][j], &inv);
        }
        for i in 0..a.len() {
            if i != r && a[i][c] != fq::ZERO {
                let f = a[i][c];
                for j in c..n {
                    let t = fq::mul(&f, &a[r][j]);
                    a[i][j] = fq::sub(&a[i][j], &t);
                }
            }
        }
        pivots.push(c);
        r += 1;
    }
    let pivset: HashSet<usize> = pivots.iter().cloned().collect();
    let mut out = vec![];
    for free in (0..n).filter(|c| !pivset.contains(c)) {
        let mut v: HashMap<u32, U256> = HashMap::new();
        v.insert(cols[free], fq::ONE);
        for (ri, pc) in pivots.iter().enumerate() {
            let c = a[ri][free];
            if c != fq::ZERO {
                v.insert(cols[*pc], fq::neg(&c));
            }
        }
        out.push(v);
    }
    out
}

/// Try to find an assignment (shadow values plus a kernel direction over the unknowns `x`) that satisfies every
/// hypothesis natively and falsifies `goal`.  Returns the changed variables with their new values.
pub fn counterexample(hyps: &[F], goal: &F, x: &HashSet<u32>) -> Option<HashMap<u32, U256>> {
    // goal must be (a conjunction of) equalities; take the first conjunct that is affine and can be broken
    let mut goal_eqs = vec![];
    collect_eqs(goal, true, &mut goal_eqs);
    if goal_eqs.is_empty() {
        return None;
    }
    let mut eqs = vec![];
    for h in hyps {
        collect_eqs(h, true, &mut eqs);
    }
    let mut memo = HashMap::new();
    let mut rows = vec![];
    let mut unknowns: Vec<u32> = x.iter().cloned().collect();
    unknowns.sort();
    // drop unknowns that make some hypothesis non-affine (e.g. both factors of a pairing product): iterate to a fixpoint
    let mut xs: HashSet<u32> = x.clone();
    for _ in 0..6 {
        memo.clear();
        rows.clear();
        let mut bad: Option<Tid> = None;
        for t in &eqs {
            match affine_in(*t, &xs, &mut memo) {
                Some((m, _)) => rows.push(m),
                None => {
                    bad = Some(*t);
                    break;
                }
            }
        }
        match bad {
            None => break,
            Some(t) => {
                // remove one unknown occurring in the offending term (the one with the smallest index: typically sigma1)
                let mut vs = std::collections::BTreeSet::new();
                let mut seen = HashSet::new();
                crate::solver::vars_of(&F::EqZ(t), &mut vs, &mut seen);
                let victim = vs.iter().find(|v| xs.contains(v)).cloned()?;
                xs.remove(&victim);
            }
        }
    }
    unknowns.retain(|v| xs.contains(v));
    if unknowns.is_empty() {
        return None;
    }
    memo.clear();
    rows.clear();
    for t in &eqs {
        rows.push(affine_in(*t, &xs, &mut memo)?.0);
    }
    let ker = kernel(&rows, &unknowns);
    if std::env::var("VX_AFFINE_DEBUG").is_ok() {
        eprintln!("    affine: {} equalities, {} unknowns ({} requested), kernel dimension {}", rows.len(), unknowns.len(), x.len(), ker.len());
    }
    if ker.is_empty() {
        return None;
    }
    let goal_forms: Vec<BTreeMap<u32, U256>> = goal_eqs.iter().filter_map(|gt| affine_in(*gt, &xs, &mut memo).map(|x| x.0)).collect();
    if goal_forms.is_empty() {
        return None;
    }
    // candidates: generic (pseudo-random) combinations of the kernel basis first - they move every free atom, including
    // the verifier's digest when hashed atoms move, which keeps the ideal-hash axioms satisfied - then single basis vectors
    let mut tries: Vec<HashMap<u32, U256>> = vec![];
    for round in 0..4u64 {
        let mut comb: HashMap<u32, U256> = HashMap::new();
        for (i, n) in ker.iter().enumerate() {
            let lam = fq::reduce(&sx::prf(0xC0FFEE + round, i as u64, b"kernel-combination"));
            for (k, v) in n {
                let e = comb.entry(*k).or_insert(fq::ZERO);
                *e = fq::add(e, &fq::mul(&lam, v));
            }
        }
        tries.push(comb);
    }
    tries.extend(ker.iter().cloned());
    for n in &tries {
        let breaks_goal = goal_forms.iter().any(|g| {
            let mut dot = fq::ZERO;
            for (k, c) in g {
                if let Some(v) = n.get(k) {
                    dot = fq::add(&dot, &fq::mul(c, v));
                }
            }
            dot != fq::ZERO
        });
        if !breaks_goal {
            continue;
        }
        let mut cand: HashMap<u32, U256> = HashMap::new();
        for (k, v) in n {
            if *v == fq::ZERO {
                continue;
            }
            let sh = sx::with(|a| fq::reduce(&a.vars[*k as usize].shadow));
            cand.insert(*k, fq::add(&sh, v));
        }
        let mut all: Vec<F> = hyps.to_vec();
        all.push(goal.clone().not());
        let ev = sx::eval_with(&cand, &all);
        if ev.iter().all(|b| *b) {
            return Some(cand);
        }
        if std::env::var("VX_AFFINE_DEBUG").is_ok() {
            let bad: Vec<usize> = ev.iter().enumerate().filter(|(_, b)| !**b).map(|(i, _)| i).collect();
            eprintln!("    affine: candidate breaks the goal but fails {} of {} hypotheses, e.g. #{}: {}", bad.len(), all.len(), bad[0], crate::eng::show(&all[bad[0]]));
            for b in &bad {
                let lab = sx::with(|a| a.decisions.iter().enumerate().find(|(_, d)| d.cond.clone().with_outcome(d.outcome) == all[*b]).map(|(i, d)| (i, a.labels[d.label as usize].clone(), d.outcome, d.forced)));
                let ax = sx::with(|a| a.axioms.iter().find(|(f, _)| *f == all[*b]).map(|(_, s)| s.clone()));
                eprintln!("      #{} decision {:?} axiom {:?}", b, lab, ax);
            }
        }
    }
    None
}

//! `vx <property> [--tier quick|thorough] [--seed N] [--out file]`
//! E1 engine of /verif: native symbolic execution of the repo's code over the stand-in algebra,
//! obligations discharged by z3.  Writes a JSON part-file; the `check` driver turns it into
//! evidence + verdict.
pub mod affine;
pub mod alloc_meter;
pub mod atoms;
pub mod eng;
pub mod explore;
pub mod layout;
pub mod prelude;
pub mod props;
pub mod report;
pub mod rng;
pub mod scenarios;
pub mod solver;
pub mod world;

#[global_allocator]
static GLOBAL: alloc_meter::Meter = alloc_meter::Meter;

fn main() {
    let args: Vec<String> = std::env::args().collect();
    if args.len() < 2 {
        eprintln!("usage: vx <property|selftest> [--tier quick|thorough] [--seed N] [--out file]");
        std::process::exit(2);
    }
    let prop = args[1].to_uppercase();
    let mut tier = eng::Tier::Quick;
    let mut seed: u64 = std::env::var("VERIF_SEED").ok().and_then(|s| s.parse().ok()).unwrap_or(1);
    let mut out = None;
    let mut i = 2;
    while i < args.len() {
        match args[i].as_str() {
            "--tier" => {
                tier = if args[i + 1] == "thorough" { eng::Tier::Thorough } else { eng::Tier::Quick };
                i += 1;
            }
            "--seed" => {
                seed = args[i + 1].parse().expect("seed");
                i += 1;
            }
            "--out" => {
                out = Some(args[i + 1].clone());
                i += 1;
            }
            _ => {}
        }
        i += 1;
    }
    // keep panic messages of expected (caught) panics quiet unless verbose
    if std::env::var("VX_VERBOSE").is_err() {
        std::panic::set_hook(Box::new(|_| {}));
    }
    if prop == "WATCHDOG-TEST" {
        // the hard deadline of a solver call: `cat` never prints the end marker, so the call must be cut off
        let mut p = solver::Proc::spawn("cat", &["cat"]).expect("cat");
        let t0 = std::time::Instant::now();
        let r = p.run_deadline("(check-sat)", Some(1500));
        let ms = t0.elapsed().as_millis();
        println!("{}", serde_json::json!({"cut_off": r.is_err(), "after_ms": ms as u64}));
        std::process::exit(if r.is_err() && ms < 4000 { 0 } else { 1 });
    }
    if prop == "SELFTEST" {
        // differential self-test: run the shared scenarios on the stand-in (decisions follow the concrete shadow values)
        bls12_381::symex::begin(vec![], bls12_381::symex::DrawMode::Free, seed);
        bls12_381::symex::set_max_decisions(2_000_000);
        let r = scenarios::run_all(seed);
        let v: Vec<_> = r.iter().map(|(n, b)| serde_json::json!([n, b])).collect();
        let s = serde_json::to_string(&v).unwrap();
        match out {
            Some(p) => std::fs::write(p, s).unwrap(),
            None => println!("{}", s),
        }
        return;
    }
    eng::init(&prop, tier, seed);
    let r = std::panic::catch_unwind(std::panic::AssertUnwindSafe(|| props::run(&prop, tier, seed)));
    if let Err(e) = r {
        let msg = e.downcast_ref::<String>().cloned().or_else(|| e.downcast_ref::<&str>().map(|s| s.to_string())).unwrap_or_else(|| "panic".into());
        eng::inconclusive(&format!("harness panicked: {}", msg));
    }
    report::write_part(out.as_deref());
}

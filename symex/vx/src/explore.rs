//! Path exploration by re-execution with a decision prefix.
use crate::eng;
use bls12_381::symex::{self as sx, DrawMode};

pub struct PathInfo {
    pub index: usize,
    pub prefix: Vec<bool>,
    /// positions (decision indices) that were flipped away from the shadow outcome
    pub flips: Vec<usize>,
}

pub struct Stats {
    pub paths: usize,
    pub panics: Vec<(Vec<bool>, String)>,
    pub truncated: bool,
}

/// Runs `body` once per path. `body` must execute the code under test; the arena is reset before each
/// call with the path's prefix.  After `body` returns, every decision past the prefix whose label is
/// in `flip_labels` (all decisions if empty) is scheduled for flipping, as long as the path has used fewer than `d` flips.
/// Follow-up rule: on a path that has used its d flips, a comparison that the unflipped root path never made (it exists
/// only because of the flip: the right operand of a short-circuit `||` / `&&`, a fallback branch) may be flipped once more.
/// This is what finds "a || b" weakenings, where acceptance needs `a` to fail AND `b` to succeed.
pub fn explore(
    mode: DrawMode,
    seed: u64,
    d: usize,
    max_paths: usize,
    flip_labels: &[&str],
    mut body: impl FnMut(&PathInfo),
) -> Stats {
    let mut work: Vec<(Vec<bool>, Vec<usize>, bool)> = vec![(vec![], vec![], false)];
    let mut root_fps: std::collections::HashSet<u64> = Default::default();
    let mut n = 0;
    let mut panics = vec![];
    let mut truncated = false;
    while let Some((prefix, flips, followup)) = work.pop() {
        if n >= max_paths {
            truncated = true;
            break;
        }
        let plen = prefix.len();
        sx::begin(prefix.clone(), mode, seed);
        let info = PathInfo { index: n, prefix: prefix.clone(), flips: flips.clone() };
        let r = std::panic::catch_unwind(std::panic::AssertUnwindSafe(|| body(&info)));
        if let Err(e) = r {
            let msg = e.downcast_ref::<String>().cloned().or_else(|| e.downcast_ref::<&str>().map(|s| s.to_string())).unwrap_or_else(|| "panic".into());
            // a panic on a path whose condition is unsatisfiable is not a behaviour of the code
            let h = eng::hyps();
            let infeasible = matches!(eng::valid(&format!("path {:?} that panics ('{}') is infeasible", flips, msg.chars().take(60).collect::<String>()), &h, &bls12_381::symex::F::False), eng::Tri::Yes);
            if !infeasible {
                panics.push((prefix.clone(), msg));
            }
        }
        eng::path_done();
        let ds = sx::snapshot_decisions();
        if prefix.is_empty() && flips.is_empty() {
            root_fps = ds.iter().map(|x| sx::fingerprint(&x.cond)).collect();
        }
        if flips.len() == d && d >= 1 && !followup {
            for i in (plen..ds.len()).rev() {
                let lname = sx::label_name(ds[i].label);
                if (flip_labels.is_empty() || flip_labels.iter().any(|l| *l == lname)) && !root_fps.contains(&sx::fingerprint(&ds[i].cond)) {
                    let mut p: Vec<bool> = ds[..i].iter().map(|x| x.outcome).collect();
                    p.push(!ds[i].outcome);
                    let mut f = flips.clone();
                    f.push(i);
                    work.push((p, f, true));
                }
            }
        }
        if flips.len() < d {
            for i in (plen..ds.len()).rev() {
                let lname = sx::label_name(ds[i].label);
                if flip_labels.is_empty() || flip_labels.iter().any(|l| *l == lname) {
                    let mut p: Vec<bool> = ds[..i].iter().map(|x| x.outcome).collect();
                    p.push(!ds[i].outcome);
                    let mut f = flips.clone();
                    f.push(i);
                    work.push((p, f, false));
                }
            }
        }
        n += 1;
    }
    Stats { paths: n, panics, truncated }
}

//! Differential self-test scenarios: compiled twice (via #[path]) — against the symbolic stand-in (vx) and
//! against the real bls12_381 / SHA3 (replay/rp) — using only the repo's public API.  Each scenario yields
//! named boolean outcomes; the two builds must agree on every one (stand-in fidelity, DESIGN.md section 3).
use rand_core::{CryptoRng, Error, RngCore};
use zkabacus_crypto::{
    customer::{self, Requested},
    merchant, ChannelId, Context, CustomerBalance, CustomerRandomness, MerchantBalance, MerchantRandomness, PaymentAmount, Verification,
};
use zkchannels_crypto::{
    pedersen::PedersenParameters,
    pointcheval_sanders::{KeyPair, Signature},
    proofs::*,
    BlindingFactor, Message,
};

pub struct ScRng(u64);
impl ScRng {
    pub fn new(seed: u64) -> Self {
        ScRng(seed ^ 0x1234_5678_9abc_def0)
    }
    fn next(&mut self) -> u64 {
        self.0 = self.0.wrapping_add(0x9E37_79B9_7F4A_7C15);
        let mut z = self.0;
        z = (z ^ (z >> 30)).wrapping_mul(0xBF58_476D_1CE4_E5B9);
        z = (z ^ (z >> 27)).wrapping_mul(0x94D0_49BB_1331_11EB);
        z ^ (z >> 31)
    }
}
impl RngCore for ScRng {
    fn next_u32(&mut self) -> u32 {
        self.next() as u32
    }
    fn next_u64(&mut self) -> u64 {
        self.next()
    }
    fn fill_bytes(&mut self, d: &mut [u8]) {
        for c in d.chunks_mut(8) {
            let v = self.next().to_le_bytes();
            c.copy_from_slice(&v[..c.len()]);
        }
    }
    fn try_fill_bytes(&mut self, d: &mut [u8]) -> Result<(), Error> {
        self.fill_bytes(d);
        Ok(())
    }
}
impl CryptoRng for ScRng {}

type Scalar = bls12_381::Scalar;
type G1 = bls12_381::G1Projective;
type G2 = bls12_381::G2Projective;

fn amount(v: i64) -> PaymentAmount {
    if v >= 0 {
        PaymentAmount::pay_merchant(v as u64).unwrap()
    } else {
        PaymentAmount::pay_customer(v.unsigned_abs()).unwrap()
    }
}
fn sc(v: u64) -> Scalar {
    Scalar::from(v)
}

/// runs every scenario; returns (name, outcome)
pub fn run_all(seed: u64) -> Vec<(String, bool)> {
    let mut out: Vec<(String, bool)> = vec![];
    let mut rng = ScRng::new(seed);
    macro_rules! rec {
        ($n:expr, $v:expr) => {
            out.push(($n.to_string(), $v))
        };
    }
    // ---- Pedersen commitments
    {
        let p = PedersenParameters::<G1, 3>::new(&mut rng);
        let m = Message::new([sc(1), sc(0), sc(77)]);
        let bf = BlindingFactor::new(&mut rng);
        let c = m.commit(&p, bf);
        rec!("pedersen g1 opens", c.verify_opening(&p, bf, &m));
        rec!("pedersen g1 wrong msg", c.verify_opening(&p, bf, &Message::new([sc(1), sc(1), sc(77)])));
        rec!("pedersen g1 wrong bf", c.verify_opening(&p, BlindingFactor::new(&mut rng), &m));
        let p2 = PedersenParameters::<G2, 2>::new(&mut rng);
        let m2 = Message::new([sc(5), sc(6)]);
        let c2 = m2.commit(&p2, bf);
        rec!("pedersen g2 opens", c2.verify_opening(&p2, bf, &m2));
        rec!("pedersen g2 other params", c2.verify_opening(&PedersenParameters::<G2, 2>::new(&mut rng), bf, &m2));
    }
    // ---- PS signatures
    {
        let kp = KeyPair::<3>::new(&mut rng);
        let m = Message::<3>::random(&mut rng);
        let mut sig = m.sign(&mut rng, &kp);
        rec!("ps verifies", sig.verify(kp.public_key(), &m));
        rec!("ps wrong msg", sig.verify(kp.public_key(), &Message::<3>::random(&mut rng)));
        rec!("ps wrong key", sig.verify(KeyPair::<3>::new(&mut rng).public_key(), &m));
        sig.randomize(&mut rng);
        rec!("ps randomized verifies", sig.verify(kp.public_key(), &m));
        let bf = BlindingFactor::new(&mut rng);
        let bs = sig.blind_and_randomize(&mut rng, bf);
        rec!("ps blind/unblind verifies", bs.unblind(bf).verify(kp.public_key(), &m));
        rec!("ps unblind wrong bf", bs.unblind(BlindingFactor::new(&mut rng)).verify(kp.public_key(), &m));
        // serialisation round trip
        let bytes = bincode::serialize(&sig).unwrap();
        let back: Signature = bincode::deserialize(&bytes).unwrap();
        rec!("ps roundtrip verifies", back.verify(kp.public_key(), &m));
    }
    // ---- proofs
    {
        let p = PedersenParameters::<G1, 2>::new(&mut rng);
        let m = Message::new([sc(10), sc(20)]);
        let b = CommitmentProofBuilder::<G1, 2>::generate_proof_commitments(&mut rng, m, &[None; 2], &p);
        let c = ChallengeBuilder::new().with(&b).finish();
        let proof = b.generate_proof_response(c);
        let c2 = ChallengeBuilder::new().with(&proof).finish();
        rec!("commitment proof verifies", proof.verify_knowledge_of_opening(&p, c2));
        let bad = ChallengeBuilder::new().with(&proof).with_bytes(b"x").finish();
        rec!("commitment proof wrong challenge", proof.verify_knowledge_of_opening(&p, bad));
        rec!("commitment proof wrong params", proof.verify_knowledge_of_opening(&PedersenParameters::<G1, 2>::new(&mut rng), c2));
        let kp = KeyPair::<2>::new(&mut rng);
        let m = Message::new([sc(3), sc(4)]);
        let sig = m.sign(&mut rng, &kp);
        let b = SignatureProofBuilder::<2>::generate_proof_commitments(&mut rng, Message::new([sc(3), sc(4)]), sig, &[None; 2], kp.public_key());
        let c = ChallengeBuilder::new().with(&b).finish();
        let sp = b.generate_proof_response(c);
        rec!("signature proof verifies", sp.verify_knowledge_of_signature(kp.public_key(), c));
        rec!("signature proof wrong key", sp.verify_knowledge_of_signature(KeyPair::<2>::new(&mut rng).public_key(), c));
        // proof for a message the signature is not on
        let b = SignatureProofBuilder::<2>::generate_proof_commitments(&mut rng, Message::new([sc(3), sc(5)]), sig, &[None; 2], kp.public_key());
        let c = ChallengeBuilder::new().with(&b).finish();
        rec!("signature proof wrong message", b.generate_proof_response(c).verify_knowledge_of_signature(kp.public_key(), c));
        let b = SignatureRequestProofBuilder::<2>::generate_proof_commitments(&mut rng, Message::new([sc(3), sc(4)]), &[None; 2], kp.public_key());
        let bf = b.message_blinding_factor();
        let c = ChallengeBuilder::new().with(&b).finish();
        let rp = b.generate_proof_response(c);
        let v = rp.verify_knowledge_of_opening(kp.public_key(), c);
        rec!("request proof verifies", v.is_some());
        if let Some(vbm) = v {
            let s = vbm.blind_sign(&kp, &mut rng).unblind(bf);
            rec!("blind signature verifies", s.verify(kp.public_key(), &Message::new([sc(3), sc(4)])));
            rec!("blind signature other message", s.verify(kp.public_key(), &Message::new([sc(3), sc(5)])));
        }
        rec!("request proof wrong challenge", rp.verify_knowledge_of_opening(kp.public_key(), bad).is_some());
    }
    // ---- range constraints
    let rparams = RangeConstraintParameters::new(&mut rng);
    rec!("range params validate", rparams.validate().is_ok());
    for v in [0i64, 1, 127, 128, 1 << 40, i64::MAX] {
        let p = PedersenParameters::<G1, 1>::new(&mut rng);
        let rb = RangeConstraintBuilder::generate_constraint_commitments(v, &rparams, &mut rng).unwrap();
        let b = CommitmentProofBuilder::<G1, 1>::generate_proof_commitments(&mut rng, Message::new([sc(v as u64)]), &[Some(rb.commitment_scalar())], &p);
        let c = ChallengeBuilder::new().with(&b).with(&rb).finish();
        let proof = b.generate_proof_response(c);
        let rc = rb.generate_constraint_response(c);
        rec!(format!("range {} verifies", v), proof.verify_knowledge_of_opening(&p, c) && rc.verify_range_constraint(&rparams, c, proof.conjunction_response_scalars()[0]));
        rec!(format!("range {} unlinked", v), rc.verify_range_constraint(&rparams, c, proof.conjunction_response_scalars()[0] + sc(1)));
    }
    for v in [-1i64, i64::MIN] {
        rec!(format!("range {} refused", v), RangeConstraintBuilder::generate_constraint_commitments(v, &rparams, &mut rng).is_err());
    }
    // ---- zkAbacus: honest run, bad replies, wrong statements, close
    {
        let m = merchant::Config::new(&mut rng);
        let (pk, cp, rp) = m.extract_customer_config_parts();
        let c = customer::Config::from_parts(pk, cp, rp);
        let cid = ChannelId::new(MerchantRandomness::new(&mut rng), CustomerRandomness::new(&mut rng), c.merchant_public_key(), b"m", b"c");
        let cid2 = ChannelId::new(MerchantRandomness::new(&mut rng), CustomerRandomness::new(&mut rng), c.merchant_public_key(), b"m", b"d");
        let ctx = Context::new(b"establish");
        let pctx = Context::new(b"pay");
        let (cb, mb) = (CustomerBalance::try_new(100).unwrap(), MerchantBalance::try_new(50).unwrap());
        let (req, proof) = Requested::new(&mut rng, &c, cid, mb, cb, &ctx);
        let pbytes = bincode::serialize(&proof).unwrap();
        let copy = || bincode::deserialize::<zkabacus_crypto::EstablishProof>(&pbytes).unwrap();
        rec!("establish wrong channel", m.initialize(&mut rng, &cid2, cb, mb, copy(), &ctx).is_some());
        rec!("establish wrong balance", m.initialize(&mut rng, &cid, CustomerBalance::try_new(101).unwrap(), mb, copy(), &ctx).is_some());
        rec!("establish wrong context", m.initialize(&mut rng, &cid, cb, mb, copy(), &pctx).is_some());
        let r = m.initialize(&mut rng, &cid, cb, mb, proof, &ctx);
        rec!("establish accepted", r.is_some());
        let (closing, vbs) = r.unwrap();
        let pt = m.activate(&mut rng, vbs);
        // pay token where a closing signature is expected
        let pt_as_closing: zkabacus_crypto::ClosingSignature = bincode::deserialize(&bincode::serialize(&pt).unwrap()).unwrap();
        let req = match req.complete(pt_as_closing, &c) {
            Ok(_) => {
                rec!("customer refuses pay token as closing signature", false);
                return out;
            }
            Err(r) => {
                rec!("customer refuses pay token as closing signature", true);
                r
            }
        };
        let inactive = req.complete(closing, &c);
        rec!("customer accepts closing signature", inactive.is_ok());
        let inactive = inactive.ok().unwrap();
        let ready = inactive.activate(pt, &c);
        rec!("customer accepts pay token", ready.is_ok());
        let ready = ready.ok().unwrap();
        // refused payment
        let ready = match ready.start(&mut rng, amount(101), &pctx, &c) {
            Err((r, _)) => {
                rec!("overdraft refused", true);
                r
            }
            Ok(_) => {
                rec!("overdraft refused", false);
                return out;
            }
        };
        let (started, start) = ready.start(&mut rng, amount(7), &pctx, &c).ok().unwrap();
        let ppbytes = bincode::serialize(&start.pay_proof).unwrap();
        let pcopy = || bincode::deserialize::<zkabacus_crypto::PayProof>(&ppbytes).unwrap();
        rec!("pay wrong amount", m.allow_payment(&mut rng, amount(8), &start.nonce, pcopy(), &pctx).is_some());
        rec!("pay wrong context", m.allow_payment(&mut rng, amount(7), &start.nonce, pcopy(), &ctx).is_some());
        let r = m.allow_payment(&mut rng, amount(7), &start.nonce, start.pay_proof, &pctx);
        rec!("pay accepted", r.is_some());
        let (unrev, closing2) = r.unwrap();
        let locked = started.lock(closing2, &c);
        rec!("lock accepted", locked.is_ok());
        let (locked, lockmsg) = locked.ok().unwrap();
        let other_pair = zkabacus_crypto::internal::test_new_revocation_pair(&mut rng);
        let unrev = match unrev.complete_payment(&mut rng, &other_pair, &lockmsg.revocation_lock_blinding_factor) {
            Ok(_) => {
                rec!("foreign revocation pair refused", false);
                return out;
            }
            Err(u) => {
                rec!("foreign revocation pair refused", true);
                u
            }
        };
        let tok = unrev.complete_payment(&mut rng, &lockmsg.revocation_pair, &lockmsg.revocation_lock_blinding_factor);
        rec!("revocation accepted", tok.is_ok());
        let ready = locked.unlock(tok.ok().unwrap(), &c);
        rec!("unlock accepted", ready.is_ok());
        let ready = ready.ok().unwrap();
        rec!("balances after payment", ready.customer_balance().into_inner() == 93 && ready.merchant_balance().into_inner() == 57);
        let cm = ready.close(&mut rng);
        let (sig, cs) = cm.into_parts();
        rec!("close accepted", matches!(m.check_close_signature(sig, &cs), Verification::Verified));
    }
    out
}

//! SMT back end: turns recorded path conditions + goals into SMT-LIB2 (Int mod q), talks to z3.
use bls12_381::fq;
use bls12_381::symex::{self as sx, Node, Tid, VarKind, F};
use std::collections::{BTreeSet, HashMap, HashSet};
use std::io::{BufRead, BufReader, Write};
use std::process::{Child, ChildStdin, ChildStdout, Command, Stdio};
use std::time::Instant;

pub struct Proc {
    pub name: String,
    child: Child,
    sin: ChildStdin,
    sout: BufReader<ChildStdout>,
}

impl Proc {
    pub fn spawn(name: &str, cmd: &[&str]) -> Option<Proc> {
        let mut child = Command::new(cmd[0])
            .args(&cmd[1..])
            .stdin(Stdio::piped())
            .stdout(Stdio::piped())
            .stderr(Stdio::null())
            .spawn()
            .ok()?;
        let sin = child.stdin.take()?;
        let sout = BufReader::new(child.stdout.take()?);
        Some(Proc { name: name.to_string(), child, sin, sout })
    }
    /// send a script, return all output lines up to the end marker
    pub fn run(&mut self, script: &str) -> Result<Vec<String>, String> {
        self.run_deadline(script, None)
    }
    /// like `run`, with a hard wall-clock limit: the solver's own `:timeout` is a soft limit that some tactics do not
    /// poll (a z3 process was seen spinning for 20 minutes on a 20 s limit); past the deadline the process is killed, the
    /// call returns an error and the caller restarts the solver and treats the answer as `unknown`
    pub fn run_deadline(&mut self, script: &str, hard_ms: Option<u64>) -> Result<Vec<String>, String> {
        let (tx, rx) = std::sync::mpsc::channel::<()>();
        let watchdog = hard_ms.map(|ms| {
            let pid = self.child.id();
            std::thread::spawn(move || {
                // woken at once when the answer is in; kills the solver when the deadline passes first
                if let Err(std::sync::mpsc::RecvTimeoutError::Timeout) = rx.recv_timeout(std::time::Duration::from_millis(ms)) {
                    let _ = Command::new("kill").arg("-9").arg(pid.to_string()).status();
                }
            })
        });
        let r = self.run_inner(script);
        let _ = tx.send(());
        if let Some(w) = watchdog {
            let _ = w.join();
        }
        r
    }
    fn run_inner(&mut self, script: &str) -> Result<Vec<String>, String> {
        let marker = "__VX_DONE__";
        let r = (|| -> std::io::Result<Vec<String>> {
            self.sin.write_all(script.as_bytes())?;
            writeln!(self.sin, "\n(echo \"{}\")", marker)?;
            self.sin.flush()?;
            let mut out = vec![];
            loop {
                let mut line = String::new();
                let n = self.sout.read_line(&mut line)?;
                if n == 0 {
                    return Err(std::io::Error::new(std::io::ErrorKind::UnexpectedEof, "solver died"));
                }
                let l = line.trim().to_string();
                if l.trim_matches('"') == marker {
                    break;
                }
                if !l.is_empty() {
                    out.push(l);
                }
            }
            Ok(out)
        })();
        r.map_err(|e| format!("{}: {}", self.name, e))
    }
}
impl Drop for Proc {
    fn drop(&mut self) {
        let _ = self.child.kill();
        let _ = self.child.wait();
    }
}

#[derive(Clone, Debug, PartialEq)]
pub enum Answer {
    Sat(HashMap<String, String>),
    Unsat,
    Unknown(String),
}

/// variables (indices) occurring in a formula
pub fn vars_of(f: &F, out: &mut BTreeSet<u32>, seen: &mut HashSet<Tid>) {
    match f {
        F::True | F::False => {}
        F::EqZ(t) => term_vars(*t, out, seen),
        F::BlobLtQ(v) | F::BlobConst(v, _) => {
            out.insert(*v);
        }
        F::BlobEq(a, b) => {
            out.insert(*a);
            out.insert(*b);
        }
        F::BlobIsTerm(v, t) => {
            out.insert(*v);
            term_vars(*t, out, seen)
        }
        F::Not(x) => vars_of(x, out, seen),
        F::And(xs) | F::Or(xs) => xs.iter().for_each(|x| vars_of(x, out, seen)),
        F::Iff(a, b) | F::Imp(a, b) => {
            vars_of(a, out, seen);
            vars_of(b, out, seen)
        }
    }
}
fn term_vars(t: Tid, out: &mut BTreeSet<u32>, seen: &mut HashSet<Tid>) {
    let mut stack = vec![t];
    sx::with(|a| {
        while let Some(t) = stack.pop() {
            if !seen.insert(t) {
                continue;
            }
            match &a.nodes[t as usize] {
                Node::Const(_) => {}
                Node::Var(v) | Node::Limb(v, _) => {
                    out.insert(*v);
                }
                Node::Add(x, y) | Node::Sub(x, y) | Node::Mul(x, y) => {
                    stack.push(*x);
                    stack.push(*y);
                }
                Node::Neg(x) => stack.push(*x),
            }
        }
    })
}
thread_local! {
    /// memo of formula -> variable set, valid for one arena epoch (hypotheses are re-sliced for every query)
    static VARS_MEMO: std::cell::RefCell<(u32, HashMap<F, BTreeSet<u32>>)> = std::cell::RefCell::new((0, HashMap::new()));
}
pub fn formula_vars(f: &F) -> BTreeSet<u32> {
    let epoch = sx::with(|a| a.epoch);
    let hit = VARS_MEMO.with(|m| {
        let mut m = m.borrow_mut();
        if m.0 != epoch {
            m.0 = epoch;
            m.1.clear();
        }
        m.1.get(f).cloned()
    });
    if let Some(h) = hit {
        return h;
    }
    let mut o = BTreeSet::new();
    let mut s = HashSet::new();
    vars_of(f, &mut o, &mut s);
    VARS_MEMO.with(|m| {
        m.borrow_mut().1.insert(f.clone(), o.clone());
    });
    o
}

fn collect_terms(f: &F, out: &mut BTreeSet<Tid>) {
    match f {
        F::True | F::False | F::BlobLtQ(_) | F::BlobEq(_, _) | F::BlobConst(_, _) => {}
        F::EqZ(t) | F::BlobIsTerm(_, t) => reach(*t, out),
        F::Not(x) => collect_terms(x, out),
        F::And(xs) | F::Or(xs) => xs.iter().for_each(|x| collect_terms(x, out)),
        F::Iff(a, b) | F::Imp(a, b) => {
            collect_terms(a, out);
            collect_terms(b, out)
        }
    }
}
fn reach(t: Tid, out: &mut BTreeSet<Tid>) {
    let mut stack = vec![t];
    sx::with(|a| {
        while let Some(t) = stack.pop() {
            if !out.insert(t) {
                continue;
            }
            match &a.nodes[t as usize] {
                Node::Const(_) | Node::Var(_) | Node::Limb(_, _) => {}
                Node::Add(x, y) | Node::Sub(x, y) | Node::Mul(x, y) => {
                    stack.push(*x);
                    stack.push(*y);
                }
                Node::Neg(x) => stack.push(*x),
            }
        }
    })
}

fn tname(a: &sx::Arena, t: Tid) -> String {
    match &a.nodes[t as usize] {
        Node::Const(c) => fq::to_dec(c),
        Node::Var(v) => a.vars[*v as usize].name.clone(),
        _ => format!("n{}", t),
    }
}

pub fn smt_formula(a: &sx::Arena, f: &F) -> String {
    match f {
        F::True => "true".into(),
        F::False => "false".into(),
        F::EqZ(t) => format!("(= (mod {} Q) 0)", tname(a, *t)),
        F::BlobLtQ(v) => format!("(< {} Q)", a.vars[*v as usize].name),
        F::BlobEq(x, y) => format!("(= {} {})", a.vars[*x as usize].name, a.vars[*y as usize].name),
        F::BlobIsTerm(v, t) => format!("(= {} (mod {} Q))", a.vars[*v as usize].name, tname(a, *t)),
        F::BlobConst(v, c) => format!("(= {} {})", a.vars[*v as usize].name, fq::to_dec(c)),
        F::Not(x) => format!("(not {})", smt_formula(a, x)),
        F::And(xs) => format!("(and {})", xs.iter().map(|x| smt_formula(a, x)).collect::<Vec<_>>().join(" ")),
        F::Or(xs) => format!("(or {})", xs.iter().map(|x| smt_formula(a, x)).collect::<Vec<_>>().join(" ")),
        F::Iff(x, y) => format!("(= {} {})", smt_formula(a, x), smt_formula(a, y)),
        F::Imp(x, y) => format!("(=> {} {})", smt_formula(a, x), smt_formula(a, y)),
    }
}

/// Zero-product lemmas (theorems of the prime field F_q) for every `t ≡ 0` atom whose term is a product
/// or a difference of two products with a common factor.
fn zero_product_lemmas(f: &F, out: &mut Vec<F>, seen: &mut HashSet<Tid>) {
    match f {
        F::EqZ(t) => zp_term(*t, out, seen),
        F::Not(x) => zero_product_lemmas(x, out, seen),
        F::And(xs) | F::Or(xs) => xs.iter().for_each(|x| zero_product_lemmas(x, out, seen)),
        F::Iff(a, b) | F::Imp(a, b) => {
            zero_product_lemmas(a, out, seen);
            zero_product_lemmas(b, out, seen)
        }
        _ => {}
    }
}
fn zp_term(t: Tid, out: &mut Vec<F>, seen: &mut HashSet<Tid>) {
    if !seen.insert(t) {
        return;
    }
    match sx::node_of(t) {
        Node::Neg(x) => {
            out.push(F::iff(F::EqZ(t), F::EqZ(x)));
            zp_term(x, out, seen)
        }
        Node::Mul(x, y) => {
            out.push(F::iff(F::EqZ(t), F::or(vec![F::EqZ(x), F::EqZ(y)])));
            zp_term(x, out, seen);
            zp_term(y, out, seen);
        }
        Node::Sub(p, q) => {
            if let (Node::Mul(a, b), Node::Mul(c, d)) = (sx::node_of(p), sx::node_of(q)) {
                // common factor: x*u - x*v = x*(u-v)
                let cf = if a == c {
                    Some((a, b, d))
                } else if a == d {
                    Some((a, b, c))
                } else if b == c {
                    Some((b, a, d))
                } else if b == d {
                    Some((b, a, c))
                } else {
                    None
                };
                if let Some((x, u, v)) = cf {
                    let diff = sx::mk(Node::Sub(u, v));
                    out.push(F::iff(F::EqZ(t), F::or(vec![F::EqZ(x), F::EqZ(diff)])));
                    zp_term(x, out, seen);
                }
            }
        }
        _ => {}
    }
}

pub struct Script {
    pub text: String,
    pub vars: Vec<String>,
    pub n_asserts: usize,
}

/// Build a self-contained SMT-LIB2 script asserting all of `asserts` (sliced by the caller).
pub fn build_script(asserts: &[F], timeout_ms: u64, want_model: bool) -> Script {
    build_script_pinned(asserts, timeout_ms, want_model, None)
}
/// `pinned`: give every variable a fixed value (`define-fun` instead of `declare-const`), so that the
/// solver only has to evaluate a ground system.
pub fn build_script_pinned(asserts: &[F], timeout_ms: u64, want_model: bool, pinned: Option<&HashMap<u32, fq::U256>>) -> Script {
    // lemmas first (they may create nodes)
    let mut lemmas = vec![];
    let mut seen = HashSet::new();
    for f in asserts {
        zero_product_lemmas(f, &mut lemmas, &mut seen);
    }
    let mut terms = BTreeSet::new();
    for f in asserts.iter().chain(lemmas.iter()) {
        collect_terms(f, &mut terms);
    }
    let mut vars = BTreeSet::new();
    let mut s = HashSet::new();
    for f in asserts.iter().chain(lemmas.iter()) {
        vars_of(f, &mut vars, &mut s);
    }
    sx::with(|a| {
        let mut t = String::new();
        t.push_str("(reset)\n(set-option :print-success false)\n");
        t.push_str(&format!("(set-option :timeout {})\n", timeout_ms));
        if want_model {
            t.push_str("(set-option :produce-models true)\n");
        }
        t.push_str(&format!("(define-fun Q () Int {})\n", fq::Q_DEC));
        let mut names = vec![];
        for v in &vars {
            let vi = &a.vars[*v as usize];
            let ub = match vi.kind {
                VarKind::Scalar => fq::Q_DEC,
                VarKind::Blob => fq::TWO256_DEC,
            };
            match pinned {
                Some(p) => {
                    let val = p.get(v).copied().unwrap_or(vi.shadow);
                    t.push_str(&format!("(define-fun {0} () Int {1})\n(assert (and (<= 0 {0}) (< {0} {2})))\n", vi.name, fq::to_dec(&val), ub));
                }
                None => {
                    t.push_str(&format!("(declare-const {0} Int)\n(assert (and (<= 0 {0}) (< {0} {1})))\n", vi.name, ub));
                    names.push(vi.name.clone());
                }
            }
        }
        for tid in &terms {
            let d = match &a.nodes[*tid as usize] {
                Node::Const(_) | Node::Var(_) => continue,
                Node::Limb(v, off) => {
                    // 2^(8 off) as a decimal literal
                    let mut p = fq::ONE;
                    p[(*off as usize) / 8] = 1u64 << (8 * ((*off as usize) % 8));
                    if (*off as usize) / 8 > 0 {
                        p[0] = 0;
                    }
                    format!("(mod (div {} {}) 18446744073709551616)", a.vars[*v as usize].name, fq::to_dec(&p))
                }
                Node::Add(x, y) => format!("(+ {} {})", tname(a, *x), tname(a, *y)),
                Node::Sub(x, y) => format!("(- {} {})", tname(a, *x), tname(a, *y)),
                Node::Mul(x, y) => format!("(* {} {})", tname(a, *x), tname(a, *y)),
                Node::Neg(x) => format!("(- {})", tname(a, *x)),
            };
            t.push_str(&format!("(define-fun n{} () Int {})\n", tid, d));
        }
        for f in lemmas.iter() {
            t.push_str(&format!("(assert {})\n", smt_formula(a, f)));
        }
        for f in asserts {
            t.push_str(&format!("(assert {})\n", smt_formula(a, f)));
        }
        t.push_str("(check-sat)\n");
        Script { text: t, vars: names, n_asserts: asserts.len() + lemmas.len() }
    })
}

fn parse_answer(lines: &[String]) -> Answer {
    for l in lines {
        if l.starts_with("(error") {
            return Answer::Unknown(format!("solver error: {}", l));
        }
    }
    match lines.first().map(|s| s.as_str()) {
        Some("unsat") => Answer::Unsat,
        Some("sat") => {
            let mut m = HashMap::new();
            let joined = lines[1..].join(" ");
            // ((name value) (name (- value)) ...)
            let toks: Vec<String> = joined.replace('(', " ( ").replace(')', " ) ").split_whitespace().map(|s| s.to_string()).collect();
            let mut i = 0;
            while i + 2 < toks.len() {
                if toks[i] == "(" && toks[i + 1] != "(" && toks[i + 1] != ")" {
                    let name = toks[i + 1].clone();
                    if toks[i + 2] == "(" {
                        // (- value)
                        if i + 4 < toks.len() && toks[i + 3] == "-" {
                            m.insert(name, format!("-{}", toks[i + 4]));
                        }
                        i += 5;
                    } else {
                        m.insert(name, toks[i + 2].clone());
                        i += 3;
                    }
                } else {
                    i += 1;
                }
            }
            Answer::Sat(m)
        }
        Some(x) => Answer::Unknown(x.to_string()),
        None => Answer::Unknown("no answer".into()),
    }
}

pub struct Solvers {
    pub main: Proc,
    pub second: Option<Proc>,
    pub third: Option<Proc>,
    pub save_dir: Option<String>,
    pub counter: usize,
}

pub struct QueryStat {
    pub answer: Answer,
    pub ms: f64,
    pub bytes: usize,
    pub nvars: usize,
    pub nasserts: usize,
    pub cross: Vec<(String, String)>,
    pub file: Option<String>,
}

impl Solvers {
    pub fn new(cross: bool, save_dir: Option<String>) -> Solvers {
        let main = Proc::spawn("z3-5.1.0", &["z3-new", "-in"]).expect("cannot start z3-new");
        let (second, third) = if cross {
            (Proc::spawn("z3-4.8.12", &["/usr/bin/z3", "-in"]), Proc::spawn("cvc5-1.0", &["cvc5", "--lang", "smt2", "--incremental", "--tlimit-per", "10000"]))
        } else {
            (None, None)
        };
        if let Some(d) = &save_dir {
            let _ = std::fs::create_dir_all(d);
        }
        Solvers { main, second, third, save_dir, counter: 0 }
    }
    pub fn check(&mut self, name: &str, asserts: &[F], timeout_ms: u64, want_model: bool) -> QueryStat {
        self.check_pinned(name, asserts, timeout_ms, want_model, None)
    }
    pub fn check_pinned(&mut self, name: &str, asserts: &[F], timeout_ms: u64, want_model: bool, pinned: Option<&HashMap<u32, fq::U256>>) -> QueryStat {
        let sc = build_script_pinned(asserts, timeout_ms, want_model, pinned);
        let mut text = sc.text.clone();
        if want_model && !sc.vars.is_empty() {
            // only asked after sat; z3 errors on get-value after unsat, handled below by ordering
        }
        let t0 = Instant::now();
        let mut lines = match self.main.run_deadline(&text, Some(timeout_ms + 15_000)) {
            Ok(l) => l,
            Err(e) => {
                // restart the solver (it died or was killed at the hard deadline)
                self.main = Proc::spawn("z3-5.1.0", &["z3-new", "-in"]).expect("cannot restart z3-new");
                vec![format!("(error \"{} (no answer within the hard limit of {} ms, or the solver died)\")", e, timeout_ms + 15_000)]
            }
        };
        if want_model && lines.first().map(|s| s == "sat").unwrap_or(false) && !sc.vars.is_empty() {
            let gv = format!("(get-value ({}))\n", sc.vars.join(" "));
            if let Ok(more) = self.main.run(&gv) {
                lines.extend(more);
            }
        }
        let ms = t0.elapsed().as_secs_f64() * 1000.0;
        let answer = parse_answer(&lines);
        self.counter += 1;
        let mut file = None;
        if let Some(d) = &self.save_dir {
            let safe: String = name.chars().map(|c| if c.is_ascii_alphanumeric() || c == '_' || c == '-' || c == '.' { c } else { '_' }).collect();
            let p = format!("{}/{:05}_{}.smt2", d, self.counter, safe.chars().take(80).collect::<String>());
            text = text.replace("(reset)\n", "");
            let _ = std::fs::write(&p, &text);
            file = Some(p);
        }
        let mut cross = vec![];
        let short = |a: &Answer| match a {
            Answer::Sat(_) => "sat".to_string(),
            Answer::Unsat => "unsat".to_string(),
            Answer::Unknown(s) => format!("unknown({})", s.chars().take(40).collect::<String>()),
        };
        // cross-checks (thorough tier) apply to `unsat` answers only: a `sat` answer is re-evaluated natively by the engine
        // (exact F_q arithmetic) before it is believed, so a second solver adds nothing there; the other solvers get 30 s
        let procs: Vec<&mut Proc> = if answer == Answer::Unsat { [self.second.as_mut(), self.third.as_mut()].into_iter().flatten().collect() } else { vec![] };
        for p in procs {
            let mut script = sc.text.replace(&format!("(set-option :timeout {})", timeout_ms), &format!("(set-option :timeout {})", timeout_ms.min(30000)));
            if p.name.starts_with("cvc5") {
                script = script.replace("(reset)\n", "(reset)\n(set-logic QF_NIA)\n");
                script = script.lines().filter(|l| !l.starts_with("(set-option :timeout")).collect::<Vec<_>>().join("\n");
            }
            let r = match p.run_deadline(&script, Some(45_000)) {
                Ok(l) => short(&parse_answer(&l)),
                Err(e) => {
                    // killed at the hard deadline (or died): restart it for the next query
                    let fresh = if p.name.starts_with("cvc5") { Proc::spawn("cvc5-1.0", &["cvc5", "--lang", "smt2", "--incremental", "--tlimit-per", "10000"]) } else { Proc::spawn("z3-4.8.12", &["/usr/bin/z3", "-in"]) };
                    if let Some(f) = fresh {
                        *p = f;
                    }
                    format!("unknown({})", e)
                }
            };
            cross.push((p.name.clone(), r));
        }
        QueryStat { answer, ms, bytes: sc.text.len(), nvars: sc.vars.len(), nasserts: sc.n_asserts, cross, file }
    }
}

/// Keep only hypotheses connected (through shared variables, transitively) to the goal's variables.
/// Sound for validity checks: dropping hypotheses can only make a goal harder to prove.
pub fn slice(hyps: &[F], goal_vars: &BTreeSet<u32>) -> Vec<F> {
    let hv: Vec<BTreeSet<u32>> = hyps.iter().map(formula_vars).collect();
    let mut live: BTreeSet<u32> = goal_vars.clone();
    let mut taken = vec![false; hyps.len()];
    loop {
        let mut changed = false;
        for (i, vs) in hv.iter().enumerate() {
            if !taken[i] && vs.iter().any(|v| live.contains(v)) {
                taken[i] = true;
                for v in vs {
                    live.insert(*v);
                }
                changed = true;
            }
        }
        if !changed {
            break;
        }
    }
    hyps.iter().zip(taken.iter()).filter(|(_, t)| **t).map(|(f, _)| f.clone()).collect()
}

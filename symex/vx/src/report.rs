//! Part-file writer (JSON) consumed by /verif/check.
use crate::eng::{ctx, Tier};
use serde_json::json;

pub fn write_part(out: Option<&str>) {
    let v = ctx(|c| {
        let real: Vec<_> = c.obligations.iter().filter(|o| o.kind != "TWIN").collect();
        let held = real.iter().filter(|o| o.verdict == "held" || o.verdict == "unsat" || o.verdict == "sat").count();
        let twins = c.obligations.len() - real.len();
        let distinct: std::collections::BTreeSet<&str> = real.iter().filter(|o| o.bytes > 0).map(|o| o.name.as_str()).collect();
        let violated = c.obligations.iter().filter(|o| o.verdict == "violated").count();
        let inconcl = c.obligations.iter().filter(|o| o.verdict == "inconclusive").count();
        let mut by_kind = std::collections::BTreeMap::new();
        for o in &c.obligations {
            *by_kind.entry(o.kind).or_insert(0usize) += 1;
        }
        // keep the file readable: all violated / inconclusive obligations + the slowest + a sample of the rest
        let mut obs: Vec<_> = c.obligations.iter().filter(|o| o.verdict == "violated" || o.verdict == "inconclusive").collect();
        let mut rest: Vec<_> = c.obligations.iter().filter(|o| !(o.verdict == "violated" || o.verdict == "inconclusive")).collect();
        rest.sort_by(|a, b| b.ms.partial_cmp(&a.ms).unwrap());
        obs.extend(rest.into_iter().take(40));
        let obs: Vec<_> = obs
            .iter()
            .map(|o| json!({"name": o.name, "kind": o.kind, "verdict": o.verdict, "answer": o.answer, "solver_ms": (o.ms*10.0).round()/10.0, "smt_bytes": o.bytes, "vars": o.nvars, "asserts": o.nasserts, "cross": o.cross}))
            .collect();
        json!({
            "engine": "E1-symex",
            "property": c.prop,
            "tier": if c.tier == Tier::Quick {"quick"} else {"thorough"},
            "seed": c.seed,
            "paths": c.paths,
            "decisions": c.decisions,
            "hash_transcripts": c.hashes,
            "n_obligations": real.len(),
            "doc_twin_queries": twins,
            "distinct_nontrivial": distinct.len(),
            "held": held,
            "violated": violated,
            "inconclusive_obligations": inconcl,
            "obligations_by_kind": by_kind,
            "obligation_records": obs,
            "inconclusive": c.inconclusive,
            "findings": c.findings.iter().map(|f| json!({"key": f.key, "detail": f.detail, "model": f.model, "replay": f.replay})).collect::<Vec<_>>(),
            "samples": c.samples,
            "functions_encoded": c.functions,
            "bounds": c.bounds,
            "assumptions": c.assumptions,
            "stubs": c.stubs,
            "notes": c.notes,
            "solver_s": (c.solver_ms/10.0).round()/100.0,
            "timeout_retries": c.retries,
            "wall_s": (c.t0.elapsed().as_secs_f64()*100.0).round()/100.0,
            "solvers": {"main": "z3 5.1.0 (z3-new -in)", "cross": if c.solvers.second.is_some() {"z3 4.8.12 + cvc5 1.0 (best effort)"} else {"none in this tier"}},
            "traces_validated_against_impl": c.traces_validated,
        })
    });
    let s = serde_json::to_string_pretty(&v).unwrap();
    match out {
        Some(p) => std::fs::write(p, s).expect("write part file"),
        None => println!("{}", s),
    }
    let (nf, ni, no) = ctx(|c| (c.findings.len(), c.inconclusive.len(), c.obligations.len()));
    eprintln!("vx: {} obligations, {} findings, {} inconclusive", no, nf, ni);
}

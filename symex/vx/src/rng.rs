//! Deterministic randomness for harness runs.
use rand_core::{CryptoRng, Error, RngCore};

/// splitmix64 stream; every byte the repo asks for comes from here, so a run is a function of the seed
#[derive(Clone)]
pub struct SeedRng {
    s: u64,
    pub consumed: u64,
}
impl SeedRng {
    pub fn new(seed: u64) -> Self {
        SeedRng { s: seed ^ 0x243F_6A88_85A3_08D3, consumed: 0 }
    }
    fn next(&mut self) -> u64 {
        self.s = self.s.wrapping_add(0x9E37_79B9_7F4A_7C15);
        let mut z = self.s;
        z = (z ^ (z >> 30)).wrapping_mul(0xBF58_476D_1CE4_E5B9);
        z = (z ^ (z >> 27)).wrapping_mul(0x94D0_49BB_1331_11EB);
        z ^ (z >> 31)
    }
}
impl RngCore for SeedRng {
    fn next_u32(&mut self) -> u32 {
        self.consumed += 4;
        self.next() as u32
    }
    fn next_u64(&mut self) -> u64 {
        self.consumed += 8;
        self.next()
    }
    fn fill_bytes(&mut self, d: &mut [u8]) {
        self.consumed += d.len() as u64;
        for c in d.chunks_mut(8) {
            let v = self.next().to_le_bytes();
            c.copy_from_slice(&v[..c.len()]);
        }
    }
    fn try_fill_bytes(&mut self, d: &mut [u8]) -> Result<(), Error> {
        self.fill_bytes(d);
        Ok(())
    }
}
impl CryptoRng for SeedRng {}

/// A stream that is all-zero inside chosen 64-byte windows (indexed by `fill_bytes` call number) and
/// pseudo-random elsewhere: drives the "degenerate draw" paths of key / parameter generation.
pub struct ZeroWindowRng {
    inner: SeedRng,
    pub call: usize,
    pub zero_calls: Vec<usize>,
}
impl ZeroWindowRng {
    pub fn new(seed: u64, zero_calls: Vec<usize>) -> Self {
        ZeroWindowRng { inner: SeedRng::new(seed), call: 0, zero_calls }
    }
}
impl RngCore for ZeroWindowRng {
    fn next_u32(&mut self) -> u32 {
        self.inner.next_u32()
    }
    fn next_u64(&mut self) -> u64 {
        self.inner.next_u64()
    }
    fn fill_bytes(&mut self, d: &mut [u8]) {
        self.inner.fill_bytes(d);
        if self.zero_calls.contains(&self.call) {
            for b in d.iter_mut() {
                *b = 0;
            }
        }
        self.call += 1;
    }
    fn try_fill_bytes(&mut self, d: &mut [u8]) -> Result<(), Error> {
        self.fill_bytes(d);
        Ok(())
    }
}
impl CryptoRng for ZeroWindowRng {}

/// pseudo-random stream in which the harness can make the *next* request all-zero
pub struct OnDemandZeroRng {
    inner: SeedRng,
    pub zero_next: bool,
}
impl OnDemandZeroRng {
    pub fn new(seed: u64) -> Self {
        OnDemandZeroRng { inner: SeedRng::new(seed), zero_next: false }
    }
}
impl RngCore for OnDemandZeroRng {
    fn next_u32(&mut self) -> u32 {
        self.inner.next_u32()
    }
    fn next_u64(&mut self) -> u64 {
        self.inner.next_u64()
    }
    fn fill_bytes(&mut self, d: &mut [u8]) {
        self.inner.fill_bytes(d);
        if self.zero_next {
            for b in d.iter_mut() {
                *b = 0;
            }
            self.zero_next = false;
        }
    }
    fn try_fill_bytes(&mut self, d: &mut [u8]) -> Result<(), Error> {
        self.fill_bytes(d);
        Ok(())
    }
}
impl CryptoRng for OnDemandZeroRng {}

//! E2 / Kani harnesses for C16: the generic container codecs of zkchannels-crypto/src/serde.rs, instantiated with a
//! one-byte toy element (implements the public `SerializeElement` trait) and driven by a hand-written
//! `Deserializer` / `SeqAccess` whose element count, `size_hint`, element bytes and failing position are `kani::any()`.
#![allow(unused)]
use serde::de::{self, DeserializeSeed, Deserializer, SeqAccess, Visitor};
use zkchannels_crypto::SerializeElement;

#[derive(Debug, Clone, Copy, PartialEq)]
pub struct Toy(pub u8);
impl SerializeElement for Toy {
    fn serialize<S: serde::Serializer>(this: &Self, s: S) -> Result<S::Ok, S::Error> { s.serialize_u8(this.0) }
    fn deserialize<'de, D: Deserializer<'de>>(d: D) -> Result<Self, D::Error> {
        struct V; impl<'de> Visitor<'de> for V { type Value = Toy;
            fn expecting(&self, f: &mut std::fmt::Formatter) -> std::fmt::Result { f.write_str("u8") }
            fn visit_u8<E>(self, v: u8) -> Result<Toy, E> { Ok(Toy(v)) } }
        d.deserialize_u8(V)
    }
}
#[derive(Debug)] pub struct Err0;
impl std::fmt::Display for Err0 { fn fmt(&self, f: &mut std::fmt::Formatter) -> std::fmt::Result { f.write_str("e") } }
impl std::error::Error for Err0 {}
impl de::Error for Err0 { fn custom<T: std::fmt::Display>(_: T) -> Self { Err0 } }

/// Deserializer that yields `count` elements with bytes from `data`, announcing `hint`.
pub struct SeqDe { pub count: usize, pub hint: Option<usize>, pub data: [u8; 8], pub fail_at: usize }
pub struct ElemDe(u8);
macro_rules! unsupported { ($($m:ident)*) => { $( fn $m<V: Visitor<'de>>(self, _v: V) -> Result<V::Value, Err0> { Err(Err0) } )* } }
impl<'de> Deserializer<'de> for ElemDe { type Error = Err0;
    fn deserialize_u8<V: Visitor<'de>>(self, v: V) -> Result<V::Value, Err0> { v.visit_u8(self.0) }
    fn deserialize_newtype_struct<V: Visitor<'de>>(self, _n: &'static str, v: V) -> Result<V::Value, Err0> { v.visit_newtype_struct(self) }
    unsupported!(deserialize_any deserialize_bool deserialize_i8 deserialize_i16 deserialize_i32 deserialize_i64 deserialize_u16 deserialize_u32 deserialize_u64 deserialize_f32 deserialize_f64 deserialize_char deserialize_str deserialize_string deserialize_bytes deserialize_byte_buf deserialize_option deserialize_unit deserialize_seq deserialize_map deserialize_identifier deserialize_ignored_any);
    fn deserialize_unit_struct<V: Visitor<'de>>(self, _n: &'static str, _v: V) -> Result<V::Value, Err0> { Err(Err0) }
    fn deserialize_tuple<V: Visitor<'de>>(self, _l: usize, _v: V) -> Result<V::Value, Err0> { Err(Err0) }
    fn deserialize_tuple_struct<V: Visitor<'de>>(self, _n: &'static str, _l: usize, _v: V) -> Result<V::Value, Err0> { Err(Err0) }
    fn deserialize_struct<V: Visitor<'de>>(self, _n: &'static str, _f: &'static [&'static str], _v: V) -> Result<V::Value, Err0> { Err(Err0) }
    fn deserialize_enum<V: Visitor<'de>>(self, _n: &'static str, _f: &'static [&'static str], _v: V) -> Result<V::Value, Err0> { Err(Err0) }
}
struct Acc { left: usize, i: usize, hint: Option<usize>, data: [u8; 8], fail_at: usize }
impl<'de> SeqAccess<'de> for Acc { type Error = Err0;
    fn next_element_seed<T: DeserializeSeed<'de>>(&mut self, seed: T) -> Result<Option<T::Value>, Err0> {
        if self.left == 0 { return Ok(None); }
        if self.i == self.fail_at { return Err(Err0); }
        self.left -= 1; let b = self.data[self.i % 8]; self.i += 1;
        seed.deserialize(ElemDe(b)).map(Some)
    }
    fn size_hint(&self) -> Option<usize> { self.hint }
}
impl<'de> Deserializer<'de> for SeqDe { type Error = Err0;
    fn deserialize_seq<V: Visitor<'de>>(self, v: V) -> Result<V::Value, Err0> { v.visit_seq(Acc { left: self.count, i: 0, hint: self.hint, data: self.data, fail_at: self.fail_at }) }
    unsupported!(deserialize_any deserialize_bool deserialize_i8 deserialize_i16 deserialize_i32 deserialize_i64 deserialize_u8 deserialize_u16 deserialize_u32 deserialize_u64 deserialize_f32 deserialize_f64 deserialize_char deserialize_str deserialize_string deserialize_bytes deserialize_byte_buf deserialize_option deserialize_unit deserialize_map deserialize_identifier deserialize_ignored_any);
    fn deserialize_newtype_struct<V: Visitor<'de>>(self, _n: &'static str, _v: V) -> Result<V::Value, Err0> { Err(Err0) }
    fn deserialize_unit_struct<V: Visitor<'de>>(self, _n: &'static str, _v: V) -> Result<V::Value, Err0> { Err(Err0) }
    fn deserialize_tuple<V: Visitor<'de>>(self, _l: usize, _v: V) -> Result<V::Value, Err0> { Err(Err0) }
    fn deserialize_tuple_struct<V: Visitor<'de>>(self, _n: &'static str, _l: usize, _v: V) -> Result<V::Value, Err0> { Err(Err0) }
    fn deserialize_struct<V: Visitor<'de>>(self, _n: &'static str, _f: &'static [&'static str], _v: V) -> Result<V::Value, Err0> { Err(Err0) }
    fn deserialize_enum<V: Visitor<'de>>(self, _n: &'static str, _f: &'static [&'static str], _v: V) -> Result<V::Value, Err0> { Err(Err0) }
}


#[cfg(kani)]
mod h {
    use super::*;
    fn any_seq(max: usize) -> (SeqDe, usize, usize) {
        let count: usize = kani::any();
        kani::assume(count <= max);
        let fail_at: usize = kani::any();
        (SeqDe { count, hint: kani::any(), data: kani::any(), fail_at }, count, fail_at)
    }
    macro_rules! array_h {
        ($name:ident, $bname:ident, $n:expr, $unw:expr) => {
            /// [Toy; N]: no panic for any count <= N+2, any size hint, any failing position; Ok <=> exactly N good elements
            #[kani::proof]
            #[kani::unwind($unw)]
            fn $name() {
                let (d, count, fail_at) = any_seq($n + 2);
                let r = <[Toy; $n] as SerializeElement>::deserialize(d);
                assert_eq!(r.is_ok(), count == $n && fail_at >= count);
            }
            #[kani::proof]
            #[kani::unwind($unw)]
            fn $bname() {
                let (d, count, fail_at) = any_seq($n + 2);
                let r = <Box<[Toy; $n]> as SerializeElement>::deserialize(d);
                assert_eq!(r.is_ok(), count == $n && fail_at >= count);
            }
        };
    }
    array_h!(array1_decode_total, boxed_array1_decode_total, 1, 6);
    array_h!(array3_decode_total, boxed_array3_decode_total, 3, 8);
    array_h!(array5_decode_total, boxed_array5_decode_total, 5, 10);

    /// Vec<Toy>: no panic / capacity overflow / allocation failure for any size hint; allocation proportional to input
    #[kani::proof]
    #[kani::unwind(6)]
    fn vec_decode_total_and_alloc_bounded() {
        let (d, count, fail_at) = any_seq(3);
        match <Vec<Toy> as SerializeElement>::deserialize(d) {
            Ok(v) => {
                assert!(fail_at >= count);
                assert!(v.len() == count);
                assert!(v.capacity() <= 4096 + count);
            }
            Err(_) => assert!(fail_at < count),
        }
    }
    /// elements survive the round trip through the visitors
    #[kani::proof]
    #[kani::unwind(8)]
    fn array3_elements_preserved() {
        let data: [u8; 8] = kani::any();
        let d = SeqDe { count: 3, hint: kani::any(), data, fail_at: usize::MAX };
        let r = <[Toy; 3] as SerializeElement>::deserialize(d).unwrap();
        assert!(r[0].0 == data[0] && r[1].0 == data[1] && r[2].0 == data[2]);
    }
    /// vacuity witness: must FAIL
    #[kani::proof]
    #[kani::unwind(8)]
    fn vacuity_witness_must_fail() {
        let (d, _count, _f) = any_seq(5);
        if <[Toy; 3] as SerializeElement>::deserialize(d).is_ok() {
            assert!(false);
        }
    }
}

//! E2 / Kani harnesses for C17 (and the balance clause of C15): all 64-bit inputs.
#![allow(unused)]
#[cfg(kani)]
mod h {
    use bls12_381::Scalar;
    use zkabacus_crypto::{verif_hooks::*, CustomerBalance, Error, MerchantBalance, PaymentAmount};

    const MAX: u64 = i64::MAX as u64;
    pub const QL: [u64; 4] = [0xffff_ffff_0000_0001, 0x53bd_a402_fffe_5bfe, 0x3339_d808_09a1_d805, 0x73ed_a753_299d_7d48];

    /// formatting of the rejection message is not the subject: empty body (listed as a stub in the evidence)
    pub fn display_stub(_e: &Error, _f: &mut core::fmt::Formatter<'_>) -> core::fmt::Result {
        Ok(())
    }

    /// every wire-reachable amount, including i64::MIN (PaymentAmount derives Deserialize over i64)
    fn any_amount() -> (PaymentAmount, i64) {
        let a: i64 = kani::any();
        let p: PaymentAmount = bincode::deserialize(&a.to_le_bytes()).unwrap();
        (p, a)
    }

    #[kani::proof]
    fn constructors_exact() {
        let v: u64 = kani::any();
        match MerchantBalance::try_new(v) {
            Ok(b) => assert!(v <= MAX && b.into_inner() == v),
            Err(Error::AmountTooLarge(x)) => assert!(v > MAX && x == v),
            Err(_) => assert!(false),
        }
        match CustomerBalance::try_new(v) {
            Ok(b) => assert!(v <= MAX && b.into_inner() == v),
            Err(Error::AmountTooLarge(x)) => assert!(v > MAX && x == v),
            Err(_) => assert!(false),
        }
        match PaymentAmount::pay_merchant(v) {
            Ok(p) => assert!(v <= MAX && p.to_i64() as i128 == v as i128),
            Err(Error::AmountTooLarge(x)) => assert!(v > MAX && x == v),
            Err(_) => assert!(false),
        }
        match PaymentAmount::pay_customer(v) {
            Ok(p) => assert!(v <= MAX && p.to_i64() as i128 == -(v as i128)),
            Err(Error::AmountTooLarge(x)) => assert!(v > MAX && x == v),
            Err(_) => assert!(false),
        }
    }

    #[kani::proof]
    fn merchant_apply_exact() {
        let b: u64 = kani::any();
        let (amt, a) = any_amount();
        if let Ok(mb) = MerchantBalance::try_new(b) {
            let exact = b as i128 + a as i128;
            match merchant_apply(mb, amt) {
                Ok(n) => assert!(exact >= 0 && exact <= MAX as i128 && n.into_inner() as i128 == exact),
                Err(Error::InsufficientFunds) => assert!(exact < 0),
                Err(Error::AmountTooLarge(_)) => assert!(exact > MAX as i128),
            }
        }
    }

    #[kani::proof]
    fn customer_apply_exact() {
        let b: u64 = kani::any();
        let (amt, a) = any_amount();
        if let Ok(cb) = CustomerBalance::try_new(b) {
            let exact = b as i128 - a as i128;
            match customer_apply(cb, amt) {
                Ok(n) => assert!(exact >= 0 && exact <= MAX as i128 && n.into_inner() as i128 == exact),
                Err(Error::InsufficientFunds) => assert!(exact < 0),
                Err(Error::AmountTooLarge(_)) => assert!(exact > MAX as i128),
            }
        }
    }

    #[kani::proof]
    fn try_add_exact() {
        let b: u64 = kani::any();
        let c: u64 = kani::any();
        if let (Ok(m), Ok(cu)) = (MerchantBalance::try_new(b), CustomerBalance::try_new(c)) {
            let exact = b as u128 + c as u128;
            match m.try_add(cu) {
                Ok(n) => assert!(exact <= MAX as u128 && n.into_inner() as u128 == exact),
                Err(Error::AmountTooLarge(_)) => assert!(exact > MAX as u128),
                Err(_) => assert!(false),
            }
        }
    }

    /// try_add on balances as they can come off the wire (C15/C17 interplay): never panics or wraps
    #[kani::proof]
    #[kani::stub(<zkabacus_crypto::Error as core::fmt::Display>::fmt, display_stub)]
    fn try_add_on_decoded_balances_total() {
        let x: [u8; 8] = kani::any();
        let y: [u8; 8] = kani::any();
        let m: Result<MerchantBalance, _> = bincode::deserialize(&x);
        let c: Result<CustomerBalance, _> = bincode::deserialize(&y);
        if let (Ok(m), Ok(c)) = (m, c) {
            let exact = m.into_inner() as u128 + c.into_inner() as u128;
            match m.try_add(c) {
                Ok(n) => assert!(exact <= MAX as u128 && n.into_inner() as u128 == exact),
                Err(_) => assert!(exact > MAX as u128),
            }
        }
    }

    fn embed(a: i64) -> Scalar {
        // reference embedding of a signed integer into F_q on canonical limbs
        if a >= 0 {
            Scalar::from_raw([a as u64, 0, 0, 0])
        } else {
            let m = a.unsigned_abs();
            // q - m, m <= 2^63 < first limb of q
            let (l0, borrow) = QL[0].overflowing_sub(m);
            assert!(!borrow);
            Scalar::from_raw([l0, QL[1], QL[2], QL[3]])
        }
    }

    /// enc(a) is the field embedding for every i64, including i64::MIN; no panic
    #[kani::proof]
    fn amount_encoding_total_and_exact() {
        let (amt, a) = any_amount();
        let s = amount_to_scalar(amt);
        assert!(s == embed(a));
    }

    #[kani::proof]
    fn balance_encoding_exact() {
        let b: u64 = kani::any();
        if let Ok(mb) = MerchantBalance::try_new(b) {
            assert!(merchant_balance_to_scalar(mb) == Scalar::from_raw([b, 0, 0, 0]));
        }
        if let Ok(cb) = CustomerBalance::try_new(b) {
            assert!(customer_balance_to_scalar(cb) == Scalar::from_raw([b, 0, 0, 0]));
        }
    }

    /// enc(b) + enc(a) = enc(b + a) (merchant) and enc(b) - enc(a) = enc(b - a) (customer) whenever apply succeeds
    #[kani::proof]
    fn encoding_homomorphic_merchant() {
        let b: u64 = kani::any();
        let (amt, _a) = any_amount();
        if let Ok(mb) = MerchantBalance::try_new(b) {
            if let Ok(n) = merchant_apply(mb, amt) {
                assert!(merchant_balance_to_scalar(mb) + amount_to_scalar(amt) == merchant_balance_to_scalar(n));
            }
        }
    }
    #[kani::proof]
    fn encoding_homomorphic_customer() {
        let b: u64 = kani::any();
        let (amt, _a) = any_amount();
        if let Ok(cb) = CustomerBalance::try_new(b) {
            if let Ok(n) = customer_apply(cb, amt) {
                assert!(customer_balance_to_scalar(cb) - amount_to_scalar(amt) == customer_balance_to_scalar(n));
            }
        }
    }

    /// C15: a balance decoded from the wire is at most 2^63-1
    #[kani::proof]
    #[kani::stub(<zkabacus_crypto::Error as core::fmt::Display>::fmt, display_stub)]
    fn decoded_customer_balance_in_range() {
        let x: [u8; 8] = kani::any();
        let r: Result<CustomerBalance, _> = bincode::deserialize(&x);
        if let Ok(b) = r {
            assert!(b.into_inner() <= MAX);
        }
    }
    #[kani::proof]
    #[kani::stub(<zkabacus_crypto::Error as core::fmt::Display>::fmt, display_stub)]
    fn decoded_merchant_balance_in_range() {
        let x: [u8; 8] = kani::any();
        let r: Result<MerchantBalance, _> = bincode::deserialize(&x);
        if let Ok(b) = r {
            assert!(b.into_inner() <= MAX);
        }
    }
    /// round trip of in-range balances and of every amount
    #[kani::proof]
    #[kani::stub(<zkabacus_crypto::Error as core::fmt::Display>::fmt, display_stub)]
    fn balance_and_amount_roundtrip() {
        let v: u64 = kani::any();
        if let Ok(b) = CustomerBalance::try_new(v) {
            let bytes = bincode::serialize(&b).unwrap();
            assert!(bytes.len() == 8);
            let back: CustomerBalance = bincode::deserialize(&bytes).unwrap();
            assert!(back.into_inner() == v);
        }
        let (amt, a) = any_amount();
        let bytes = bincode::serialize(&amt).unwrap();
        assert!(bytes.len() == 8);
        let back: PaymentAmount = bincode::deserialize(&bytes).unwrap();
        assert!(back.to_i64() == a);
    }
    /// vacuity witness: must FAIL

    /// C12 / C06 / C01 / C18 (integer side): for EVERY 32-byte channel id the scalar fed to the challenge and to the
    /// signed tuples is `from_raw` of its four little-endian 64-bit words - every byte reaches exactly its own position
    /// (no word dropped, duplicated, shifted or misaligned).  Two ids therefore give the same scalar only if they are
    /// congruent mod q as 256-bit integers.
    #[kani::proof]
    #[kani::unwind(9)]
    fn channel_id_scalar_uses_every_byte_once() {
        let b: [u8; 32] = kani::any();
        let s = channel_id_to_scalar(b);
        let mut w = [0u64; 4];
        let mut k = 0;
        while k < 4 {
            let mut x = 0u64;
            let mut j = 0;
            while j < 8 {
                x |= (b[8 * k + j] as u64) << (8 * j);
                j += 1;
            }
            w[k] = x;
            k += 1;
        }
        assert!(s == Scalar::from_raw(w));
        // and a one-byte change always changes the (unreduced) word vector
        let i: usize = kani::any();
        kani::assume(i < 32);
        let mut b2 = b;
        b2[i] ^= 1;
        assert!(channel_id_to_scalar(b2) != s);
    }
    #[kani::proof]
    fn vacuity_witness_must_fail() {
        let b: u64 = kani::any();
        let (amt, _a) = any_amount();
        if let Ok(mb) = MerchantBalance::try_new(b) {
            if let Ok(_n) = merchant_apply(mb, amt) {
                assert!(false);
            }
        }
    }
}

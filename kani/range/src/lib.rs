//! E2 / Kani harness for C13 (integer side): the range prover for ALL i64 inputs.
#![allow(unused)]
use rand_core::{CryptoRng, Error, RngCore};

pub struct FixedRng;
impl RngCore for FixedRng {
    fn next_u32(&mut self) -> u32 { 1 }
    fn next_u64(&mut self) -> u64 { 1 }
    fn fill_bytes(&mut self, d: &mut [u8]) { let mut i = 0; while i < d.len() { d[i] = 1; i += 1; } }
    fn try_fill_bytes(&mut self, d: &mut [u8]) -> Result<(), Error> { self.fill_bytes(d); Ok(()) }
}
impl CryptoRng for FixedRng {}

#[cfg(kani)]
mod h {
    use super::*;
    use bls12_381::Scalar;
    use zkchannels_crypto::{pointcheval_sanders::KeyPair, proofs::{RangeConstraintBuilder, RangeConstraintParameters}, Message};

    fn params() -> RangeConstraintParameters {
        let mut rng = FixedRng;
        let kp = KeyPair::<1>::new(&mut rng);
        let sig = Message::new([Scalar::from(3u64)]).sign(&mut rng, &kp);
        RangeConstraintParameters::verif_from_parts(sig, kp.public_key().clone())
    }

    /// Err <=> value < 0; no panic (digit index in bounds, the `expect`s unreachable) for every i64
    #[kani::proof]
    #[kani::unwind(34)]
    fn range_prover_sign_test_and_totality() {
        let p = params();
        let v: i64 = kani::any();
        let mut rng = FixedRng;
        let r = RangeConstraintBuilder::generate_constraint_commitments(v, &p, &mut rng);
        assert_eq!(r.is_err(), v < 0);
        if r.is_ok() {
            // exactness of the base-128 decomposition for EVERY accepted value (hook: the digits the prover used)
            let d = zkchannels_crypto::proofs::verif_digits::last();
            let mut sum: u128 = 0;
            let mut w: u128 = 1;
            let mut j = 0;
            while j < 9 {
                assert!(d[j] < 128);
                sum += d[j] as u128 * w;
                w *= 128;
                j += 1;
            }
            assert!(sum == v as u128);
        }
    }

    /// vacuity witness: must FAIL
    #[kani::proof]
    #[kani::unwind(34)]
    fn vacuity_witness_must_fail() {
        let p = params();
        let v: i64 = kani::any();
        let mut rng = FixedRng;
        if RangeConstraintBuilder::generate_constraint_commitments(v, &p, &mut rng).is_ok() {
            assert!(false);
        }
    }
}

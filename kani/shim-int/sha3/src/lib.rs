//! Kani-side sha3 stand-in: constant digest 0x01 00.. (challenge = 1)
pub use digest::{self, Digest};
use digest::{generic_array::{typenum::U32, GenericArray}, FixedOutputDirty, Reset, Update};
#[derive(Clone, Default, Debug)]
pub struct Sha3_256;
impl Update for Sha3_256 { fn update(&mut self, _d: impl AsRef<[u8]>) {} }
impl Reset for Sha3_256 { fn reset(&mut self) {} }
impl FixedOutputDirty for Sha3_256 { type OutputSize = U32; fn finalize_into_dirty(&mut self, out: &mut GenericArray<u8, U32>) { let mut i = 0; while i < 32 { out[i] = 0; i += 1; } out[0] = 1; } }

//! Kani-side stand-in for bls12_381 (DESIGN.md 2.2): Scalar = canonical 256-bit integer mod q as four limbs; add/sub/neg exact by carry chains; limb-wise `==`; multiplication exact only for operands 0/1, otherwise a fixed junk function (documented contract: only the additive structure and the u64 embedding are relied upon).
use core::fmt;
use core::iter::Sum;
use core::ops::{Add, AddAssign, Mul, MulAssign, Neg, Sub, SubAssign};
use ff::{Field, FieldBits, PrimeField};
use group::{prime::{PrimeCurve, PrimeCurveAffine, PrimeGroup}, Curve, Group, GroupEncoding, UncompressedEncoding};
use rand_core::RngCore;
use subtle::{Choice, ConditionallySelectable, ConstantTimeEq, CtOption};
pub const QL: [u64; 4] = [0xffff_ffff_0000_0001, 0x53bd_a402_fffe_5bfe, 0x3339_d808_09a1_d805, 0x73ed_a753_299d_7d48];
pub const K_G1: u8 = 2; pub const K_G2: u8 = 3; pub const K_INVALID: u8 = 9;
#[derive(Clone, Copy, Debug, Default)]
pub struct Scalar(pub [u64; 4]);
impl PartialEq for Scalar { fn eq(&self, o: &Self) -> bool { self.0[0] == o.0[0] && self.0[1] == o.0[1] && self.0[2] == o.0[2] && self.0[3] == o.0[3] } }
impl Eq for Scalar {}
impl fmt::Display for Scalar { fn fmt(&self, f: &mut fmt::Formatter<'_>) -> fmt::Result { write!(f, "S") } }
fn geq(a: &[u64; 4], b: &[u64; 4]) -> bool { let mut i = 3; loop { if a[i] != b[i] { return a[i] > b[i]; } if i == 0 { return true; } i -= 1; } }
fn sub_raw(a: &[u64; 4], b: &[u64; 4]) -> [u64; 4] { let mut r = [0u64; 4]; let mut br = 0u64; let mut i = 0; while i < 4 { let t = (1u128 << 64) + a[i] as u128 - b[i] as u128 - br as u128; r[i] = t as u64; br = if (t >> 64) == 0 { 1 } else { 0 }; i += 1; } r }
fn add_raw(a: &[u64; 4], b: &[u64; 4]) -> ([u64; 4], u64) { let mut r = [0u64; 4]; let mut c = 0u64; let mut i = 0; while i < 4 { let t = a[i] as u128 + b[i] as u128 + c as u128; r[i] = t as u64; c = (t >> 64) as u64; i += 1; } (r, c) }
impl Scalar {
    pub const fn zero() -> Scalar { Scalar([0; 4]) }
    pub const fn one() -> Scalar { Scalar([1, 0, 0, 0]) }
    pub const fn from_raw(v: [u64; 4]) -> Self { Scalar(v) } // harness only passes canonical values
    pub fn to_bytes(&self) -> [u8; 32] { let mut b = [0u8; 32]; let mut i = 0; while i < 4 { b[8*i..8*i+8].copy_from_slice(&self.0[i].to_le_bytes()); i += 1; } b }
    pub fn from_bytes(b: &[u8; 32]) -> CtOption<Scalar> { let mut l = [0u64; 4]; let mut i = 0; while i < 4 { l[i] = u64::from_le_bytes([b[8*i],b[8*i+1],b[8*i+2],b[8*i+3],b[8*i+4],b[8*i+5],b[8*i+6],b[8*i+7]]); i += 1; } CtOption::new(Scalar(l), Choice::from((!geq(&l, &QL)) as u8)) }
    pub fn double(&self) -> Scalar { *self + *self }
    pub fn square(&self) -> Scalar { *self * *self }
    pub fn is_small(&self) -> Option<u64> { if self.0[1] == 0 && self.0[2] == 0 && self.0[3] == 0 { Some(self.0[0]) } else { None } }
    fn term(&self) -> Scalar { *self }
    fn from_term(s: Scalar) -> Scalar { s }
    fn nondet() -> Scalar { Scalar([7, 0, 0, 0]) }
}
impl From<u64> for Scalar { fn from(v: u64) -> Self { Scalar([v, 0, 0, 0]) } }
impl ConstantTimeEq for Scalar { fn ct_eq(&self, o: &Self) -> Choice { Choice::from((self == o) as u8) } }
impl ConditionallySelectable for Scalar { fn conditional_select(a: &Self, b: &Self, c: Choice) -> Self { if bool::from(c) { *b } else { *a } } }
fn s_add(a: Scalar, b: Scalar) -> Scalar { let (r, c) = add_raw(&a.0, &b.0); if c == 1 || geq(&r, &QL) { Scalar(sub_raw(&r, &QL)) } else { Scalar(r) } }
fn s_sub(a: Scalar, b: Scalar) -> Scalar { if geq(&a.0, &b.0) { Scalar(sub_raw(&a.0, &b.0)) } else { let (t, _) = add_raw(&a.0, &QL); Scalar(sub_raw(&t, &b.0)) } }
fn s_mul(a: Scalar, b: Scalar) -> Scalar { match (a.is_small(), b.is_small()) { (Some(0), _) | (_, Some(0)) => Scalar::zero(), (Some(1), _) => b, (_, Some(1)) => a, _ => s_add(a, b) } }
macro_rules! binop { ($Tr:ident, $f:ident, $TrA:ident, $fa:ident, $imp:ident) => {
    impl $Tr<Scalar> for Scalar { type Output = Scalar; fn $f(self, o: Scalar) -> Scalar { $imp(self, o) } }
    impl<'a> $Tr<&'a Scalar> for Scalar { type Output = Scalar; fn $f(self, o: &'a Scalar) -> Scalar { $imp(self, *o) } }
    impl<'a> $Tr<Scalar> for &'a Scalar { type Output = Scalar; fn $f(self, o: Scalar) -> Scalar { $imp(*self, o) } }
    impl<'a, 'b> $Tr<&'b Scalar> for &'a Scalar { type Output = Scalar; fn $f(self, o: &'b Scalar) -> Scalar { $imp(*self, *o) } }
    impl $TrA<Scalar> for Scalar { fn $fa(&mut self, o: Scalar) { *self = $imp(*self, o); } }
    impl<'a> $TrA<&'a Scalar> for Scalar { fn $fa(&mut self, o: &'a Scalar) { *self = $imp(*self, *o); } } } }
binop!(Add, add, AddAssign, add_assign, s_add); binop!(Sub, sub, SubAssign, sub_assign, s_sub); binop!(Mul, mul, MulAssign, mul_assign, s_mul);
impl Neg for Scalar { type Output = Scalar; fn neg(self) -> Scalar { s_sub(Scalar::zero(), self) } }
impl<'a> Neg for &'a Scalar { type Output = Scalar; fn neg(self) -> Scalar { -*self } }
impl<T: core::borrow::Borrow<Scalar>> Sum<T> for Scalar { fn sum<I: Iterator<Item = T>>(iter: I) -> Self { iter.fold(Scalar::zero(), |a, x| a + *x.borrow()) } }
impl Field for Scalar {
    fn random(mut rng: impl RngCore) -> Self { let _ = rng.next_u32(); Scalar::nondet() }
    fn zero() -> Self { Scalar::zero() } fn one() -> Self { Scalar::one() } fn is_zero(&self) -> bool { (self.0[0] | self.0[1] | self.0[2] | self.0[3]) == 0 }
    fn square(&self) -> Self { Scalar::square(self) } fn double(&self) -> Self { Scalar::double(self) }
    fn invert(&self) -> CtOption<Self> { CtOption::new(Scalar::nondet(), Choice::from((!self.is_zero()) as u8)) }
    fn sqrt(&self) -> CtOption<Self> { unimplemented!() }
}
impl PrimeField for Scalar { type Repr = [u8; 32]; type ReprBits = [u64; 4];
    fn from_repr(r: [u8; 32]) -> Option<Self> { Scalar::from_bytes(&r).into() } fn to_repr(&self) -> [u8; 32] { self.to_bytes() }
    fn to_le_bits(&self) -> FieldBits<[u64; 4]> { unimplemented!() } fn is_odd(&self) -> bool { self.0[0] & 1 == 1 } fn char_le_bits() -> FieldBits<[u64; 4]> { unimplemented!() }
    const NUM_BITS: u32 = 255; const CAPACITY: u32 = 254; fn multiplicative_generator() -> Self { Scalar::from(7) } const S: u32 = 32; fn root_of_unity() -> Self { unimplemented!() } }
fn fresh_nonzero(_p: &str) -> Scalar { let s = Scalar::nondet(); #[cfg(kani)] kani::assume((s.0[0] | s.0[1] | s.0[2] | s.0[3]) != 0); s }
fn token<const L: usize>(_k: u8, s: Scalar) -> [u8; L] { let mut b = [0u8; L]; b[..32].copy_from_slice(&s.to_bytes()); b }
fn untoken(b: &[u8]) -> Option<(u8, Scalar)> { let mut a = [0u8; 32]; a.copy_from_slice(&b[..32]); let k = if b.len() == 48 { K_G1 } else { K_G2 }; Option::<Scalar>::from(Scalar::from_bytes(&a)).map(|s| (k, s)) }
// ---------- groups (dlog representation) ----------
macro_rules! group_impl {
    ($P:ident, $A:ident, $C:ident, $U:ident, $KIND:ident, $CL:expr, $UL:expr, $pfx:expr) => {
        #[derive(Clone, Copy, Debug, Default)]
        pub struct $P(pub Scalar);
        #[derive(Clone, Copy, Debug, Default)]
        pub struct $A(pub Scalar);
        impl $P { pub fn from_term(t: Scalar) -> Self { $P(Scalar::from_term(t)) } pub fn term(&self) -> Scalar { self.0.term() }
            
            pub fn identity() -> Self { $P(Scalar::zero()) } pub fn generator() -> Self { $P(Scalar::one()) }
            pub fn is_identity(&self) -> Choice { Choice::from(self.0.is_zero() as u8) }
            pub fn double(&self) -> Self { $P(self.0 + self.0) } }
        impl $A { pub fn from_term(t: Scalar) -> Self { $A(Scalar::from_term(t)) } pub fn term(&self) -> Scalar { self.0.term() }
            pub fn identity() -> Self { $A(Scalar::zero()) } pub fn generator() -> Self { $A(Scalar::one()) }
            pub fn is_identity(&self) -> Choice { Choice::from(self.0.is_zero() as u8) }
            pub fn to_compressed(&self) -> [u8; $CL] { token::<$CL>($KIND, self.term()) }
            pub fn to_uncompressed(&self) -> [u8; $UL] { token::<$UL>($KIND, self.term()) }
            pub fn from_compressed(b: &[u8; $CL]) -> CtOption<Self> { match untoken(b) { Some((k, id)) if k == $KIND => CtOption::new($A::from_term(id), Choice::from(1)), _ => CtOption::new($A::identity(), Choice::from(0)) } }
            pub fn from_compressed_unchecked(b: &[u8; $CL]) -> CtOption<Self> { match untoken(b) { Some((k, id)) if k == $KIND || k == K_INVALID => CtOption::new($A::from_term(id), Choice::from(1)), _ => CtOption::new($A::identity(), Choice::from(0)) } }
            // rest of the inherent API of the real crate, so that a change to the code under test that uses it still builds
            pub fn from_uncompressed_unchecked(b: &[u8; $UL]) -> CtOption<Self> { match untoken(b) { Some((k, id)) if k == $KIND || k == K_INVALID => CtOption::new($A::from_term(id), Choice::from(1)), _ => CtOption::new($A::identity(), Choice::from(0)) } }
            pub fn is_on_curve(&self) -> Choice { Choice::from(1) }
            pub fn is_torsion_free(&self) -> Choice { Choice::from(1) }
            pub fn from_uncompressed(b: &[u8; $UL]) -> CtOption<Self> { match untoken(b) { Some((k, id)) if k == $KIND => CtOption::new($A::from_term(id), Choice::from(1)), _ => CtOption::new($A::identity(), Choice::from(0)) } }
        }
        impl PartialEq for $P { fn eq(&self, o: &Self) -> bool { self.0 == o.0 } } impl Eq for $P {}
        impl PartialEq for $A { fn eq(&self, o: &Self) -> bool { self.0 == o.0 } } impl Eq for $A {}
        impl PartialOrd for $P { fn partial_cmp(&self, _: &Self) -> Option<core::cmp::Ordering> { unimplemented!() } }
        impl Ord for $P { fn cmp(&self, _: &Self) -> core::cmp::Ordering { unimplemented!() } }
        impl From<$P> for $A { fn from(p: $P) -> $A { $A(p.0) } } impl<'a> From<&'a $P> for $A { fn from(p: &'a $P) -> $A { $A(p.0) } }
        impl From<$A> for $P { fn from(p: $A) -> $P { $P(p.0) } } impl<'a> From<&'a $A> for $P { fn from(p: &'a $A) -> $P { $P(p.0) } }
        impl ConditionallySelectable for $P { fn conditional_select(a: &Self, b: &Self, c: Choice) -> Self { if bool::from(c) { *b } else { *a } } }
        impl ConditionallySelectable for $A { fn conditional_select(a: &Self, b: &Self, c: Choice) -> Self { if bool::from(c) { *b } else { *a } } }
        impl Neg for $P { type Output = $P; fn neg(self) -> $P { $P(-self.0) } } impl<'a> Neg for &'a $P { type Output = $P; fn neg(self) -> $P { $P(-self.0) } }
        impl Neg for $A { type Output = $A; fn neg(self) -> $A { $A(-self.0) } } impl<'a> Neg for &'a $A { type Output = $A; fn neg(self) -> $A { $A(-self.0) } }
        group_impl!(@add $P, $P, $P); group_impl!(@add $P, $A, $P); group_impl!(@add $A, $P, $P);
        impl AddAssign<$P> for $P { fn add_assign(&mut self, o: $P) { self.0 = self.0 + o.0; } } impl<'a> AddAssign<&'a $P> for $P { fn add_assign(&mut self, o: &'a $P) { self.0 = self.0 + o.0; } }
        impl SubAssign<$P> for $P { fn sub_assign(&mut self, o: $P) { self.0 = self.0 - o.0; } } impl<'a> SubAssign<&'a $P> for $P { fn sub_assign(&mut self, o: &'a $P) { self.0 = self.0 - o.0; } }
        impl AddAssign<$A> for $P { fn add_assign(&mut self, o: $A) { self.0 = self.0 + o.0; } } impl<'a> AddAssign<&'a $A> for $P { fn add_assign(&mut self, o: &'a $A) { self.0 = self.0 + o.0; } }
        impl SubAssign<$A> for $P { fn sub_assign(&mut self, o: $A) { self.0 = self.0 - o.0; } } impl<'a> SubAssign<&'a $A> for $P { fn sub_assign(&mut self, o: &'a $A) { self.0 = self.0 - o.0; } }
        group_impl!(@mul $P, $P); group_impl!(@mul $A, $P);
        impl MulAssign<Scalar> for $P { fn mul_assign(&mut self, s: Scalar) { self.0 = self.0 * s; } } impl<'a> MulAssign<&'a Scalar> for $P { fn mul_assign(&mut self, s: &'a Scalar) { self.0 = self.0 * *s; } }
        impl<T: core::borrow::Borrow<$P>> Sum<T> for $P { fn sum<I: Iterator<Item = T>>(iter: I) -> Self { iter.fold($P::identity(), |a, x| a + *x.borrow()) } }
        impl Group for $P { type Scalar = Scalar;
            fn random(mut rng: impl RngCore) -> Self { let _ = rng.next_u32(); $P::from_term(fresh_nonzero($pfx)) }
            fn identity() -> Self { $P::identity() } fn generator() -> Self { $P::generator() }
            fn is_identity(&self) -> Choice { $P::is_identity(self) } fn double(&self) -> Self { $P::double(self) } }
        #[derive(Clone, Copy)] pub struct $C(pub [u8; $CL]);
        impl Default for $C { fn default() -> Self { $C([0; $CL]) } } impl AsRef<[u8]> for $C { fn as_ref(&self) -> &[u8] { &self.0 } } impl AsMut<[u8]> for $C { fn as_mut(&mut self) -> &mut [u8] { &mut self.0 } }
        #[derive(Clone, Copy)] pub struct $U(pub [u8; $UL]);
        impl Default for $U { fn default() -> Self { $U([0; $UL]) } } impl AsRef<[u8]> for $U { fn as_ref(&self) -> &[u8] { &self.0 } } impl AsMut<[u8]> for $U { fn as_mut(&mut self) -> &mut [u8] { &mut self.0 } }
        impl GroupEncoding for $P { type Repr = $C;
            fn from_bytes(b: &$C) -> CtOption<Self> { $A::from_compressed(&b.0).map(Into::into) } fn from_bytes_unchecked(b: &$C) -> CtOption<Self> { $A::from_compressed_unchecked(&b.0).map(Into::into) }
            fn to_bytes(&self) -> $C { $C($A::from(self).to_compressed()) } }
        impl GroupEncoding for $A { type Repr = $C;
            fn from_bytes(b: &$C) -> CtOption<Self> { $A::from_compressed(&b.0) } fn from_bytes_unchecked(b: &$C) -> CtOption<Self> { $A::from_compressed_unchecked(&b.0) }
            fn to_bytes(&self) -> $C { $C(self.to_compressed()) } }
        impl UncompressedEncoding for $A { type Uncompressed = $U;
            fn from_uncompressed(b: &$U) -> CtOption<Self> { $A::from_uncompressed(&b.0) } fn from_uncompressed_unchecked(b: &$U) -> CtOption<Self> { $A::from_uncompressed(&b.0) }
            fn to_uncompressed(&self) -> $U { $U($A::to_uncompressed(self)) } }
        impl PrimeGroup for $P {}
        impl Curve for $P { type AffineRepr = $A; fn to_affine(&self) -> $A { self.into() } }
        impl PrimeCurve for $P { type Affine = $A; }
        impl PrimeCurveAffine for $A { type Scalar = Scalar; type Curve = $P;
            fn identity() -> Self { $A::identity() } fn generator() -> Self { $A::generator() } fn is_identity(&self) -> Choice { $A::is_identity(self) } fn to_curve(&self) -> $P { self.into() } }
    };
    (@add $L:ident, $R:ident, $O:ident) => {
        impl Add<$R> for $L { type Output = $O; fn add(self, o: $R) -> $O { $O(self.0 + o.0) } } impl<'a> Add<&'a $R> for $L { type Output = $O; fn add(self, o: &'a $R) -> $O { $O(self.0 + o.0) } }
        impl<'a> Add<$R> for &'a $L { type Output = $O; fn add(self, o: $R) -> $O { $O(self.0 + o.0) } } impl<'a, 'b> Add<&'b $R> for &'a $L { type Output = $O; fn add(self, o: &'b $R) -> $O { $O(self.0 + o.0) } }
        impl Sub<$R> for $L { type Output = $O; fn sub(self, o: $R) -> $O { $O(self.0 - o.0) } } impl<'a> Sub<&'a $R> for $L { type Output = $O; fn sub(self, o: &'a $R) -> $O { $O(self.0 - o.0) } }
        impl<'a> Sub<$R> for &'a $L { type Output = $O; fn sub(self, o: $R) -> $O { $O(self.0 - o.0) } } impl<'a, 'b> Sub<&'b $R> for &'a $L { type Output = $O; fn sub(self, o: &'b $R) -> $O { $O(self.0 - o.0) } }
    };
    (@mul $L:ident, $O:ident) => {
        impl Mul<Scalar> for $L { type Output = $O; fn mul(self, s: Scalar) -> $O { $O(self.0 * s) } } impl<'a> Mul<&'a Scalar> for $L { type Output = $O; fn mul(self, s: &'a Scalar) -> $O { $O(self.0 * *s) } }
        impl<'a> Mul<Scalar> for &'a $L { type Output = $O; fn mul(self, s: Scalar) -> $O { $O(self.0 * s) } } impl<'a, 'b> Mul<&'b Scalar> for &'a $L { type Output = $O; fn mul(self, s: &'b Scalar) -> $O { $O(self.0 * *s) } }
    };
}
group_impl!(G1Projective, G1Affine, G1Compressed, G1Uncompressed, K_G1, 48, 96, "g1r");
group_impl!(G2Projective, G2Affine, G2Compressed, G2Uncompressed, K_G2, 96, 192, "g2r");

// ---------- pairing ----------
#[derive(Clone, Copy, Debug, Default)]
pub struct Gt(pub Scalar);
impl Gt { pub fn identity() -> Gt { Gt(Scalar::zero()) } }
impl PartialEq for Gt { fn eq(&self, o: &Self) -> bool { self.0 == o.0 } }
impl Eq for Gt {}
impl Add for Gt { type Output = Gt; fn add(self, o: Gt) -> Gt { Gt(self.0 + o.0) } }
impl Neg for Gt { type Output = Gt; fn neg(self) -> Gt { Gt(-self.0) } }
impl Mul<Scalar> for Gt { type Output = Gt; fn mul(self, s: Scalar) -> Gt { Gt(self.0 * s) } }
#[derive(Clone, Copy, Debug)]
pub struct G2Prepared(pub Scalar);
impl From<G2Affine> for G2Prepared { fn from(a: G2Affine) -> Self { G2Prepared(a.0) } }
#[derive(Clone, Copy, Debug)]
pub struct MillerLoopResult(pub Scalar);
impl MillerLoopResult { pub fn final_exponentiation(&self) -> Gt { Gt(self.0) } }
pub fn multi_miller_loop(terms: &[(&G1Affine, &G2Prepared)]) -> MillerLoopResult {
    let mut acc = Scalar::zero();
    for (a, b) in terms { acc = acc + a.0 * b.0; }
    MillerLoopResult(acc)
}
pub fn pairing(p: &G1Affine, q: &G2Affine) -> Gt { Gt(p.0 * q.0) }

#!/bin/sh
# run every registered check (quick by default); one summary line per property on stdout
#   ./run_all.sh [quick|thorough] [jobs]     (jobs: checks run side by side, default 1)
cd "$(dirname "$0")"
TIER=${1:-quick}
JOBS=${2:-1}
mkdir -p build
one() {
  p=$1; s=$(date +%s)
  ./check $p --tier $TIER > build/run_all.$p.out 2>&1
  rc=$?
  echo "$p rc=$rc $(( $(date +%s) - s ))s :: $(tail -1 build/run_all.$p.out | cut -c1-200)"
}
IDS=$(python3 -c "import json;print(' '.join(c['property_id'] for c in json.load(open('MANIFEST.json'))['checks']))")
if [ "$JOBS" -le 1 ]; then
  for p in $IDS; do one $p; done
else
  for p in $IDS; do echo $p; done | TIER=$TIER xargs -P "$JOBS" -I{} sh -c 's=$(date +%s); ./check {} --tier $TIER > build/run_all.{}.out 2>&1; rc=$?; echo "{} rc=$rc $(( $(date +%s) - s ))s :: $(tail -1 build/run_all.{}.out | cut -c1-200)"'
fi

#!/bin/sh
# run every registered check (quick by default) one after the other; summary on stdout
cd "$(dirname "$0")"
TIER=${1:-quick}
for p in $(python3 -c "import json;print(' '.join(c['property_id'] for c in json.load(open('MANIFEST.json'))['checks']))"); do
  s=$(date +%s)
  out=$(./check $p --tier $TIER 2>&1 | tail -3)
  rc=$?
  echo "$p rc=$rc $(( $(date +%s) - s ))s :: $(echo "$out" | tail -1 | cut -c1-200)"
done

#!/bin/sh
# run every registered check (quick by default) one after the other; one summary line per property on stdout
cd "$(dirname "$0")"
TIER=${1:-quick}
mkdir -p build
for p in $(python3 -c "import json;print(' '.join(c['property_id'] for c in json.load(open('MANIFEST.json'))['checks']))"); do
  s=$(date +%s)
  ./check $p --tier $TIER > build/run_all.$p.out 2>&1
  rc=$?
  echo "$p rc=$rc $(( $(date +%s) - s ))s :: $(tail -1 build/run_all.$p.out | cut -c1-200)"
done

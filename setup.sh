#!/bin/sh
# Offline build of the verification workspaces (run once after a fresh restore).
set -e
cd "$(dirname "$0")"
export CARGO_NET_OFFLINE=true
mkdir -p build evidence
(cd symex && CARGO_TARGET_DIR=../build/symex cargo build --quiet 2>build.err || { tail -30 build.err; exit 1; }; rm -f build.err)
echo "setup: E1 workspace built"
(cd replay && CARGO_TARGET_DIR=../build/replay cargo build --quiet 2>build.err || { tail -30 build.err; exit 1; }; rm -f build.err)
echo "setup: replay workspace built"
python3 lib/selftest.py > build/selftest.out 2>&1 || { cat build/selftest.out; exit 1; }
echo "setup: stand-in fidelity self-test passed ($(python3 -c "import json;print(json.load(open('build/selftest.json'))['scenarios'])") scenario outcomes agree with the real crates)"

#!/bin/sh
# Offline build of the verification workspaces (run once after a fresh restore).
set -e
cd "$(dirname "$0")"
export CARGO_NET_OFFLINE=true
mkdir -p build evidence
(cd symex && CARGO_TARGET_DIR=../build/symex cargo build --quiet 2>build.err || { tail -30 build.err; exit 1; }; rm -f build.err)
echo "setup: E1 workspace built"
